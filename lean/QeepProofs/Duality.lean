import QeepProofs.Graph
import Mathlib.Data.Real.Basic
import Mathlib.Tactic.Linarith
import Mathlib.Tactic.Ring
/-!
# The adjoint equations are the chain rule: reverse accumulation is the adjoint of tangent propagation

Generic in the gradient domain `D`, the tangent domain `T`, a pairing `ip : D → T → ℝ`, the rules `pull` (backward
closure of an edge) and ANY family of per-edge linear maps `push` on tangents to which the rules are adjoint
(`ip (pull r gy) t = ip gy (push r t)`: the rule is the vector-Jacobian product of the edge's Jacobian `push r`).

Take tangents `dv u` of all nodes that satisfy the forward (tangent) equations of the graph,
`dv u = δ u + Σ_{tracked edges e of u} push e (dv (target e))` (tested against every covector), where `δ u` is an arbitrary
perturbation injected at node `u` (for a leaf: its own variation; for an operation result: zero). Then a successful
walk ends with gradients `G` such that

  `Σ_u ⟨G u, δ u⟩ = Σ_n ⟨seed n, dv n⟩`

(`Good n` is any per-node invariant of gradient values — for the code: "has the shape of tensor n" — under which
accumulation is additive for the pairing.) On a fresh graph the right side is `⟨ones, dv root⟩`: the gradients are the coefficients of the first-order variation
of (the sum of the elements of) the root with respect to every node, which is the multivariate chain rule over the
whole DAG, whatever its depth, fan-out and reconvergence.
-/
set_option linter.unusedSimpArgs false
set_option linter.unusedSectionVars false

namespace Qeep
section duality
variable {D R T : Type} (add : D → D → Out D) (pull : R → D → Out D) (tracked : Nat → Bool)
variable (ip : D → T → ℝ) (push : R → T → T)

/-- pairing with a possibly absent gradient -/
def ipo (g : Option D) (t : T) : ℝ := match g with | some g => ip g t | none => 0

theorem sums_ip (Good : D → Prop)
    (hadd : ∀ a b s, Good a → Good b → add a b = .ok s → Good s ∧ ∀ t, ip s t = ip a t + ip b t)
    {a b : Option D} {l : List D} (h : Sums add a l b) (ha : ∀ x, a = some x → Good x) (hl : ∀ g ∈ l, Good g) (t : T) :
    ipo ip b t = ipo ip a t + (l.map (fun g => ip g t)).sum := by
  induction h with
  | nil a => simp
  | @first g gs b _ ih =>
    rw [ih (fun x hx => by cases hx; exact hl g (by simp)) (fun y hy => hl y (List.mem_cons_of_mem _ hy))]
    simp [ipo]
  | @next x g s gs b hs _ ih =>
    obtain ⟨gs', e⟩ := hadd x g s (ha x rfl) (hl g (by simp)) hs
    rw [ih (fun y hy => by cases hy; exact gs') (fun y hy => hl y (List.mem_cons_of_mem _ hy))]
    simp only [ipo, List.map_cons, List.sum_cons]; rw [e t]; ring

/-- what one edge contributes to the pairing at its target, computed from the gradient `G` of its source -/
noncomputable def term (G : Nat → Option D) (dv : Nat → T) (p : Pair R) : ℝ :=
  if tracked p.2.1 = true then
    match G p.1 with
    | some gy => (match pull p.2.2 gy with | .ok g => ip g (dv p.2.1) | _ => 0)
    | none => 0
  else 0

theorem fm_sum {β : Type} (f : β → Option D) (h : D → ℝ) (p : β) (ps : List β) :
    (((p :: ps).filterMap f).map h).sum = (match f p with | some g => h g | none => 0) + ((ps.filterMap f).map h).sum := by
  cases hf : f p <;> simp [List.filterMap_cons, hf]

theorem contrib_sum (G : Nat → Option D) (dv : Nat → T) (n : Nat) (ps : List (Pair R)) :
    ((contrib pull tracked G ps n).map (fun g => ip g (dv n))).sum
      = (ps.map (fun p => if p.2.1 = n then term pull tracked ip G dv p else 0)).sum := by
  induction ps with
  | nil => simp [contrib]
  | cons p ps ih =>
    unfold contrib at ih ⊢
    rw [fm_sum, ih]
    simp only [List.map_cons, List.sum_cons]
    congr 1
    by_cases ht : tracked p.2.1 = true
    · by_cases hn : p.2.1 = n
      · subst hn
        simp only [ht, and_self, if_true, term]
        cases hG : G p.1 with
        | none => rfl
        | some gy =>
          simp only []
          cases hp : pull p.2.2 gy <;> rfl
      · simp only [hn, and_false, if_false]
    · have hf : tracked p.2.1 = false := by cases h : tracked p.2.1 <;> simp_all
      simp [hf, term]

theorem sum_add_map {β : Type} (l : List β) (f g : β → ℝ) :
    (l.map (fun x => f x + g x)).sum = (l.map f).sum + (l.map g).sum := by
  induction l with
  | nil => simp
  | cons x l ih => simp only [List.map_cons, List.sum_cons, ih]; ring

theorem sum_zero_map {β : Type} (l : List β) : (l.map (fun _ => (0 : ℝ))).sum = 0 := by
  induction l with
  | nil => simp
  | cons x l ih => simp [ih]

theorem sum_swap {β γ : Type} (L : List β) (ps : List γ) (f : β → γ → ℝ) :
    (L.map (fun n => (ps.map (fun p => f n p)).sum)).sum = (ps.map (fun p => (L.map (fun n => f n p)).sum)).sum := by
  induction ps with
  | nil => simp [sum_zero_map]
  | cons p ps ih =>
    simp only [List.map_cons, List.sum_cons]
    rw [sum_add_map, ih]

theorem sum_indicator (L : List Nat) (hnd : L.Nodup) (m : Nat) (c : ℝ) :
    (L.map (fun n => if m = n then c else 0)).sum = if m ∈ L then c else 0 := by
  induction L with
  | nil => simp
  | cons x L ih =>
    have hx := (List.nodup_cons.mp hnd)
    simp only [List.map_cons, List.sum_cons, ih hx.2, List.mem_cons]
    by_cases hmx : m = x
    · subst hmx; simp [hx.1]
    · simp [hmx]

theorem sum_congr_map {β : Type} (l : List β) (f g : β → ℝ) (h : ∀ x ∈ l, f x = g x) : (l.map f).sum = (l.map g).sum := by
  congr 1; exact List.map_congr_left h

theorem sum_flatMap_map {β γ : Type} (L : List β) (es : β → List γ) (f : β → γ → ℝ) :
    ((L.flatMap (fun u => (es u).map (fun e => (u, e)))).map (fun p => f p.1 p.2)).sum
      = (L.map (fun u => ((es u).map (fun e => f u e)).sum)).sum := by
  induction L with
  | nil => simp
  | cons u L ih =>
    simp only [List.flatMap_cons, List.map_append, List.sum_append, List.map_cons, List.sum_cons, ih, List.map_map]
    rfl

/-- **Reverse accumulation is the adjoint of tangent propagation** (see the header). `G` is the final gradient store,
    `seed` the store the walk started from (previous gradients plus the all-ones seed at the root). -/
theorem adjoint_duality (edges : Nat → List (Nat × R)) (L : List Nat) (hnd : L.Nodup)
    (G seed : Nat → Option D)
    (hS : ∀ n, Sums add (seed n) (contrib pull tracked G (allPairs edges L) n) (G n))
    (hdef : ∀ p ∈ allPairs edges L, tracked p.2.1 = true → ∃ gy g, G p.1 = some gy ∧ pull p.2.2 gy = .ok g)
    (hclosed : ∀ p ∈ allPairs edges L, tracked p.2.1 = true → p.2.1 ∈ L)
    (Good : Nat → D → Prop)
    (hadd : ∀ n a b s, Good n a → Good n b → add a b = .ok s → Good n s ∧ ∀ t, ip s t = ip a t + ip b t)
    (hseed : ∀ n x, seed n = some x → Good n x)
    (hgood : ∀ n, ∀ g ∈ contrib pull tracked G (allPairs edges L) n, Good n g)
    (hadj : ∀ p ∈ allPairs edges L, tracked p.2.1 = true → ∀ gy g, pull p.2.2 gy = .ok g → ∀ t, ip g t = ip gy (push p.2.2 t))
    (dv δ : Nat → T)
    (htan : ∀ u ∈ L, ∀ gy, ip gy (dv u) = ip gy (δ u)
        + ((edges u).map (fun e => if tracked e.1 = true then ip gy (push e.2 (dv e.1)) else 0)).sum) :
    (L.map (fun u => ipo ip (G u) (δ u))).sum = (L.map (fun n => ipo ip (seed n) (dv n))).sum := by
  -- P: the total of the edge terms
  let P : ℝ := ((allPairs edges L).map (term pull tracked ip G dv)).sum
  -- (1) node by node: ⟨G u, dv u⟩ = ⟨G u, δ u⟩ + Σ_{edges of u} term
  have h1 : (L.map (fun u => ipo ip (G u) (dv u))).sum = (L.map (fun u => ipo ip (G u) (δ u))).sum + P := by
    have hP : P = (L.map (fun u => ((edges u).map (fun e => term pull tracked ip G dv (u, e))).sum)).sum := by
      simp only [P]
      unfold allPairs
      exact sum_flatMap_map L edges (fun u e => term pull tracked ip G dv (u, e))
    rw [hP, ← sum_add_map]
    apply sum_congr_map
    intro u hu
    cases hG : G u with
    | none =>
      simp only [ipo]
      have : ((edges u).map (fun e => term pull tracked ip G dv (u, e))).sum = 0 := by
        rw [← sum_zero_map (edges u)]
        apply sum_congr_map
        intro e _
        simp [term, hG]
      rw [this]; ring
    | some gy =>
      simp only [ipo]
      rw [htan u hu gy]
      congr 1
      apply sum_congr_map
      intro e he
      by_cases ht : tracked e.1 = true
      · have hp : (u, e) ∈ allPairs edges L := by
          unfold allPairs
          exact List.mem_flatMap.mpr ⟨u, hu, List.mem_map.mpr ⟨e, he, rfl⟩⟩
        obtain ⟨gy', g, hgy, hg⟩ := hdef _ hp ht
        simp only [] at hgy hg
        rw [hG] at hgy
        cases hgy
        simp only [term, ht, if_true, hG, hg]
        exact (hadj _ hp ht _ _ hg _).symm
      · simp [term, ht]
  -- (2) ⟨G n, dv n⟩ = ⟨seed n, dv n⟩ + contributions; summed over L the contributions are P again
  have h2 : (L.map (fun n => ipo ip (G n) (dv n))).sum = (L.map (fun n => ipo ip (seed n) (dv n))).sum + P := by
    have e1 : ∀ n ∈ L, ipo ip (G n) (dv n) = ipo ip (seed n) (dv n)
        + ((allPairs edges L).map (fun p => if p.2.1 = n then term pull tracked ip G dv p else 0)).sum := by
      intro n _
      rw [sums_ip add ip (Good n) (hadd n) (hS n) (hseed n) (hgood n) (dv n), contrib_sum]
    rw [sum_congr_map L _ _ e1, sum_add_map]
    congr 1
    rw [sum_swap L (allPairs edges L) (fun n p => if p.2.1 = n then term pull tracked ip G dv p else 0)]
    simp only [P]
    apply sum_congr_map
    intro p hp
    rw [sum_indicator L hnd p.2.1 (term pull tracked ip G dv p)]
    by_cases ht : tracked p.2.1 = true
    · simp [hclosed p hp ht]
    · simp [term, ht]
  linarith

end duality
end Qeep

namespace Qeep
namespace DualityExample
/-! Non-vacuity of `adjoint_duality`: a reconverging graph `2 → {1, 0}`, `1 → 0` with scalar gradients; rule of an edge
with coefficient `r` is `g ↦ r * g` (its own adjoint). Gradients: `G 2 = 1`, `G 1 = 2`, `G 0 = 1 + 3 * 2 = 7`;
perturbing node 0 by 1 moves node 1 by 3 and node 2 by `2 * 3 + 1 = 7`. -/

def edges : Nat → List (Nat × ℝ)
  | 2 => [(1, 2), (0, 1)]
  | 1 => [(0, 3)]
  | _ => []

noncomputable def G : Nat → Option ℝ
  | 2 => some 1 | 1 => some 2 | 0 => some 7 | _ => none
noncomputable def seed : Nat → Option ℝ
  | 2 => some 1 | _ => none
noncomputable def dv : Nat → ℝ
  | 0 => 1 | 1 => 3 | 2 => 7 | _ => 0
noncomputable def δ : Nat → ℝ
  | 0 => 1 | _ => 0

example : ([2, 1, 0].map (fun u => ipo (fun (g t : ℝ) => g * t) (G u) (δ u))).sum
    = ([2, 1, 0].map (fun n => ipo (fun (g t : ℝ) => g * t) (seed n) (dv n))).sum := by
  refine adjoint_duality (fun a b => .ok (a + b)) (fun r g => .ok (r * g)) (fun _ => true) (fun g t => g * t)
    (fun r t => r * t) edges [2, 1, 0] (by decide) G seed ?_ ?_ ?_ (fun _ _ => True) ?_ ?_ ?_ ?_ dv δ ?_
  · intro n
    have hp : allPairs edges [2, 1, 0] = [(2, (1, 2)), (2, (0, 1)), (1, (0, 3))] := by
      simp [allPairs, edges]
    rw [hp]
    match n with
    | 0 =>
      have : contrib (fun (r g : ℝ) => Out.ok (r * g)) (fun _ => true) G [(2, ((1:ℕ), (2:ℝ))), (2, (0, 1)), (1, (0, 3))] 0
          = [1 * 1, 3 * 2] := by simp [contrib, G]
      rw [this]
      exact .first (.next (by norm_num) (.nil _))
    | 1 =>
      have : contrib (fun (r g : ℝ) => Out.ok (r * g)) (fun _ => true) G [(2, ((1:ℕ), (2:ℝ))), (2, (0, 1)), (1, (0, 3))] 1
          = [2 * 1] := by simp [contrib, G]
      rw [this]
      exact .first (by simpa [G] using Sums.nil _)
    | 2 =>
      have : contrib (fun (r g : ℝ) => Out.ok (r * g)) (fun _ => true) G [(2, ((1:ℕ), (2:ℝ))), (2, (0, 1)), (1, (0, 3))] 2
          = [] := by simp [contrib, G]
      rw [this]
      exact .nil _
    | n + 3 =>
      have : contrib (fun (r g : ℝ) => Out.ok (r * g)) (fun _ => true) G [(2, ((1:ℕ), (2:ℝ))), (2, (0, 1)), (1, (0, 3))] (n + 3)
          = [] := by simp [contrib, G]
      rw [this]
      exact .nil _
  · intro p hp _
    simp [allPairs, edges] at hp
    rcases hp with rfl | rfl | rfl <;> simp [G]
  · intro p hp _
    simp [allPairs, edges] at hp
    rcases hp with rfl | rfl | rfl <;> simp
  · intro n a b s _ _ h
    cases h
    exact ⟨trivial, fun t => by ring⟩
  · intros; trivial
  · intros; trivial
  · intro p _ _ gy g h t
    cases h; ring
  · intro u hu gy
    simp at hu
    rcases hu with rfl | rfl | rfl <;> simp [edges, dv, δ] <;> ring

end DualityExample
end Qeep
