import Qeep.Driver
open Qeep.Driver

partial def loop (hin : IO.FS.Stream) (hout : IO.FS.Stream) (lp : Loop) : IO Unit := do
  let line ← hin.getLine
  if line.isEmpty then
    hout.flush
    return ()
  let (lp', out) := stepLine lp line
  match out with
  | some o => hout.putStrLn o
  | none => pure ()
  loop hin hout lp'

def main (args : List String) : IO Unit := do
  let hin ← IO.getStdin
  let hout ← IO.getStdout
  let bm := if args.contains "--bcast=mean" then Qeep.BMode.mean else Qeep.BMode.sum
  loop hin hout { bm := bm }
