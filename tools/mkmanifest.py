#!/usr/bin/env python3
"""Regenerate MANIFEST.json from properties.jsonl and lean/QeepProps/obligations.json."""
import json
props = [json.loads(l) for l in open('/verif/properties.jsonl')]
ob = json.load(open('/verif/lean/QeepProps/obligations.json'))
GAPS = json.load(open('/verif/tools/gaps.json'))
checks = []
for pr in props:
    pid = pr['id']
    thms = ob.get(pid, {}).get('theorems', [])
    if thms:
        cat = 'proof'
        text = ('Lean 4 theorems about a hand-written model of the code (kernel-checked and axiom-audited on every run: %s) '
                'tied to /repo by a differential correspondence run of the real code against the model\'s executable definitions '
                'on generated programs; where the Go source is regular (component bodies, backward-rule closures, validators) the model definitions are also '
                'equated, by kernel-checked equations, with definitions regenerated from the source on every run (a drift escalates the search, DESIGN 4b). %s' % (', '.join(t.split('.')[-1] for t in thms), GAPS.get(pid, '')))
        tech = ('Lean 4 proof over a hand-written model + differential correspondence check (model vs real code); for the regular parts of the code '
                'additionally kernel-checked equations between the model and definitions regenerated from the Go source on every run')
    else:
        cat = 'translation_validation'
        text = ('No theorem is registered for this property yet: the check is the correspondence half of the technique only — '
                'the real code and the Lean model (the object future theorems are about) run the same generated programs and '
                'their outcome streams are diffed. %s' % GAPS.get(pid, ''))
        tech = 'differential run of the real code against the executable Lean model (no theorem yet)'
    checks.append({
        'property_id': pid,
        'quick_cmd': './check %s --tier quick' % pid,
        'thorough_cmd': './check %s --tier thorough' % pid,
        'evidence_file': 'evidence/%s.json' % pid,
        'replay_cmd_template': './check %s --replay {path}' % pid,
        'engine': 'lean4-model+correspondence',
        'level_claimed': {'category': cat, 'text': text, 'design_ref': 'DESIGN.md section 7, row ' + pid},
        'level_note': 'trusted: Lean kernel, axioms propext/Classical.choice/Quot.sound, Mathlib where imported; the correspondence '
                      '(Go harness, Lean driver, python generators/differ) is sampling; floating point is modelled by real arithmetic / an '
                      'abstract scalar in theorems and compared exactly (no libm on the path) or within 1e-9 (libm) in runs',
        'technique': tech,
    })
m = {
    'version': 1,
    'setup_cmd': './setup.sh',
    'hooks': {
        'guard': 'verif',
        'enable': 'go build -tags verif (the harness is always built with the tag; no hook file is needed: tracking flags are read by reflection through the public GradContext() accessor)',
        'baseline_off_cmd': 'cd /repo && GOFLAGS=-mod=mod GOPROXY=off GOSUMDB=off GOTOOLCHAIN=local go test -vet=off -count=1 ./...',
        'source_commits': [],
        'add_only': True,
    },
    'engines': [{'name': 'lean4-model+correspondence', 'path': 'lean/ harness/ gen/ extract/ xlate/ check',
                 'serves_properties': [p['id'] for p in props],
                 'kind_free_text': 'Lean 4 model and theorems (lean/), Go interpreter over the real public API (harness/), python generators and differ (gen/), go/ast fact extractor (extract/), Go-to-Lean translator for the regular parts of the source (xlate/, lean/QeepGen, lean/QeepTie), driver script (check)'}],
    'checks': checks,
    'not_applicable': [],
    'notes': 'see DESIGN.md; known_findings.json lists the two unrepaired defects (D2 Broadcast-mean, D11 Sigmoid gradient NaN below -709.78) and the eight repaired ones; seeded/ holds 160 seeded changes (eight rounds), all caught by the quick tier of their property; harmless/ holds 20 behaviour-preserving refactorings, no alarm',
}
json.dump(m, open('/verif/MANIFEST.json', 'w'), indent=1)
print('proof:', [c['property_id'] for c in checks if c['level_claimed']['category'] == 'proof'])
print('tv   :', [c['property_id'] for c in checks if c['level_claimed']['category'] != 'proof'])
