#!/usr/bin/env python3
"""seed_eval.py <PID> <LETTER> [--checks C01,C02,...]
Confirm a seeded change produced by a sub-agent (in /tmp/mut/<PID>-out/) in a scratch worktree, run the
checks of /verif against it (applied to /repo, undone straight afterwards) and store it under /verif/seeded/."""
import sys, os, subprocess, json, shutil, re
ENV = dict(os.environ, GOFLAGS='-mod=mod', GOPROXY='off', GOSUMDB='off', GOTOOLCHAIN='local')
def sh(cmd, cwd=None, timeout=1200):
    r = subprocess.run(cmd, shell=True, cwd=cwd, env=ENV, capture_output=True, text=True, timeout=timeout)
    return r.returncode, r.stdout + r.stderr
def main():
    pid, letter = sys.argv[1], sys.argv[2]
    checks = [pid]
    if '--checks' in sys.argv:
        checks = sys.argv[sys.argv.index('--checks') + 1].split(',')
    out = '/tmp/mut/%s-out' % pid
    diff = os.path.join(out, letter + '.diff'); demo = os.path.join(out, letter + '_demo_test.go')
    wt = '/tmp/mut/eval_%s%s' % (pid, letter)
    sh('git -C /repo worktree remove --force %s' % wt)
    rc, o = sh('git -C /repo worktree add -q --detach %s HEAD' % wt)
    assert rc == 0, o
    res = {'property': pid, 'letter': letter}
    try:
        rc, o = sh('git apply %s' % diff, cwd=wt); res['applies'] = (rc == 0)
        assert rc == 0, o
        rc, o = sh('go build ./... && go test -vet=off -count=1 ./...', cwd=wt); res['suite_passes_with_change'] = (rc == 0)
        os.makedirs(wt + '/demo'); shutil.copy(demo, wt + '/demo/demo_test.go')
        rc, o = sh('go test -vet=off -count=1 ./demo/', cwd=wt); res['demo_fails_with_change'] = (rc != 0)
        sh('git checkout -- . && git clean -fdq -e demo', cwd=wt)
        rc, o = sh('go test -vet=off -count=1 ./demo/', cwd=wt); res['demo_passes_without_change'] = (rc == 0)
    finally:
        sh('git -C /repo worktree remove --force %s' % wt)
    confirmed = all(res.get(k) for k in ('applies', 'suite_passes_with_change', 'demo_fails_with_change', 'demo_passes_without_change'))
    res['confirmed'] = confirmed
    print(json.dumps(res))
    if not confirmed:
        return
    # run the checks against the change applied to /repo itself
    assert sh('git -C /repo status --porcelain')[1].strip() == '', 'repo dirty'
    rc, o = sh('git -C /repo apply %s' % diff); assert rc == 0, o
    detected = {}
    try:
        for c in checks:
            rc, o = sh('./check %s' % c, cwd='/verif')
            v = [l for l in o.split('\n') if l.startswith('VIOLATION')]
            detected[c] = {'exit': rc, 'violation_lines': v[:2], 'summary': o.strip().split('\n')[-1]}
            print(c, 'exit', rc, v[:1])
    finally:
        sh('git -C /repo checkout -- . && git -C /repo clean -fdq')
    d = '/verif/seeded/%s-%s' % (pid, letter)
    os.makedirs(d, exist_ok=True)
    shutil.copy(diff, d + '/patch.diff'); shutil.copy(demo, d + '/demo_test.go')
    md = os.path.join(out, letter + '.md')
    meta = {'breaks_property': pid, 'description_by_author': open(md).read() if os.path.exists(md) else '',
            'confirmed_in_scratch_worktree': res,
            'what_was_run': 'tools/seed_eval.py %s %s: git apply in a scratch worktree; go test ./... (passes); demo fails with the change, passes without; then applied to /repo, ./check run, git checkout -- .' % (pid, letter),
            'checks_run': detected, 'caught_by': [c for c, v in detected.items() if v['exit'] == 1]}
    json.dump(meta, open(d + '/meta.json', 'w'), indent=1)
    print('caught_by', meta['caught_by'])
main()
