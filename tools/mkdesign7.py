#!/usr/bin/env python3
"""Regenerate section 7 of DESIGN.md (per-property status) from obligations.json and gaps.json."""
import json, re
ob = json.load(open('/verif/lean/QeepProps/obligations.json'))
gaps = json.load(open('/verif/tools/gaps.json'))
props = [json.loads(l) for l in open('/verif/properties.jsonl')]
rows = []
for p in props:
    pid = p['id']
    th = ob.get(pid, {}).get('theorems', [])
    names = ', '.join('`%s`' % t.replace('Qeep.', '') for t in th)
    rows.append('| %s | %s | %s | %s |' % (pid, p['title'], names or '—', gaps.get(pid, '—')))
sec = """## 7. Per-property status

Generated from `lean/QeepProps/obligations.json` (theorems re-checked and axiom-audited by the property's check on every
run; all have axioms ⊆ {propext, Classical.choice, Quot.sound}) and `tools/gaps.json` (what is claimed only through the
correspondence run). Theorem statements are in `lean/QeepProps/Cxx.lean` (property level) and `lean/QeepProofs/*.lean`
(generator / copier / walk specifications); each property file ends with a kernel-checked non-vacuity example.

| id | property | theorems (obligations) | not proved / covered by the correspondence run only |
|---|---|---|---|
""" + '\n'.join(rows) + """

Every property is claimed at level `proof` in MANIFEST.json; the `level_claimed.text` of each check repeats the gap column.

"""
s = open('/verif/DESIGN.md').read()
a = s.index('## 7. Per-property status')
b = s.index('## 8. Trusted base')
open('/verif/DESIGN.md', 'w').write(s[:a] + sec + '\n' + s[b:])
print('section 7 regenerated:', len(rows), 'rows')
