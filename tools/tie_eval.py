#!/usr/bin/env python3
"""tie_eval.py: which seeded / harmless changes does the regenerated-definition tie (gen/tie.py) notice?
Applies every patch under seeded/ and harmless/ to a scratch copy of /repo's HEAD (never to /repo) and runs the tie
for the property the change belongs to. Writes work/tie_eval.json and prints a summary."""
import os, sys, json, subprocess, shutil
sys.path.insert(0, '/verif/gen')
import tie
SCR = '/tmp/tie_repo'
def fresh():
    shutil.rmtree(SCR, ignore_errors=True); os.makedirs(SCR)
    subprocess.run('git -C /repo archive HEAD | tar -x -C %s' % SCR, shell=True, check=True)
res = {}
for kind in ('seeded', 'harmless'):
    base = os.path.join('/verif', kind)
    for d in sorted(os.listdir(base)):
        p = os.path.join(base, d, 'patch.diff')
        if not os.path.exists(p):
            continue
        pid = d.split('-')[0]
        fresh()
        r = subprocess.run(['git', 'apply', '--directory=' + SCR.lstrip('/'), '--unsafe-paths', p], cwd='/', capture_output=True, text=True)
        if r.returncode != 0:
            r = subprocess.run(['patch', '-p1', '-s', '-i', p], cwd=SCR, capture_output=True, text=True)
        if r.returncode != 0:
            res[kind + '/' + d] = {'status': 'patch-failed'}; continue
        t = tie.run(pid, repo=SCR)
        res[kind + '/' + d] = {'status': t['status'], 'drift': [x[:160] for x in t.get('drift', [])][:3]}
        print(kind, d, t['status'], flush=True)
shutil.rmtree(SCR, ignore_errors=True)
tie.run('C02'); tie.run('C11'); tie.run('C12'); tie.run('C14')   # regenerate from /repo itself
json.dump(res, open('/verif/work/tie_eval.json', 'w'), indent=1)
for kind in ('seeded', 'harmless'):
    ks = [k for k in res if k.startswith(kind)]
    print(kind, 'drift:', sum(1 for k in ks if res[k]['status'] == 'drift'), 'of', len(ks))
