#!/bin/bash
# Re-evaluate every seeded change under seeded/ against the current checks (quick tier, seed 1).
# It patches /repo temporarily (one change at a time, undone straight afterwards): run nothing else meanwhile.
export GOFLAGS=-mod=mod GOPROXY=off GOSUMDB=off GOTOOLCHAIN=local
cd /verif
out=${1:-work/seeds_regress.txt}
: > "$out"
for p in $(ls seeded | grep -v INDEX); do
  pid=${p%-*}; l=${p#*-}
  mkdir -p /tmp/mut/$pid-out
  cp seeded/$p/patch.diff /tmp/mut/$pid-out/$l.diff
  cp seeded/$p/demo_test.go /tmp/mut/$pid-out/${l}_demo_test.go
  python3 - "$p" <<'PY'
import json,sys
m=json.load(open('/verif/seeded/%s/meta.json'%sys.argv[1]))
pid,l=sys.argv[1].split('-')
open('/tmp/mut/%s-out/%s.md'%(pid,l),'w').write(m.get('description_by_author',''))
PY
  echo "== $p" >> "$out"
  python3 tools/seed_eval.py $pid $l 2>&1 | tail -1 >> "$out"
done
echo "caught: $(grep -c "caught_by \['C" "$out") of $(grep -c '^==' "$out")"
grep -B1 "caught_by \[\]" "$out"
