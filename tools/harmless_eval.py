#!/usr/bin/env python3
"""harmless_eval.py <PID> [LETTER=H]
Negative control: a behaviour-preserving refactoring written by a sub-agent (in /tmp/mut/<PID>-out/<LETTER>.diff) is
applied to /repo, the library's own suite and ALL twenty quick checks are run, and the change is undone. Any alarm is a
false alarm (unless inspection shows the refactoring is not behaviour-preserving after all). Stored under
/verif/harmless/<PID>-<LETTER>/ (patch.diff, meta.json)."""
import sys, os, subprocess, json, shutil
ENV = dict(os.environ, GOFLAGS='-mod=mod', GOPROXY='off', GOSUMDB='off', GOTOOLCHAIN='local')
def sh(cmd, cwd=None, timeout=3600):
    r = subprocess.run(cmd, shell=True, cwd=cwd, env=ENV, capture_output=True, text=True, timeout=timeout)
    return r.returncode, r.stdout + r.stderr
def main():
    pid = sys.argv[1]
    letter = sys.argv[2] if len(sys.argv) > 2 else 'H'
    out = '/tmp/mut/%s-out' % pid
    diff = os.path.join(out, letter + '.diff')
    assert sh('git -C /repo status --porcelain')[1].strip() == '', 'repo dirty'
    rc, o = sh('git -C /repo apply %s' % diff)
    res = {'property_area': pid, 'applies': rc == 0}
    alarms = {}
    try:
        if rc == 0:
            rc, o = sh('go build ./... && go test -vet=off -count=1 ./...', cwd='/repo')
            res['suite_passes'] = (rc == 0)
            only = os.environ.get('HARMLESS_CHECKS')
            for c in (only.split(',') if only else ['C%02d' % i for i in range(1, 21)]):
                rc, o = sh('./check %s' % c, cwd='/verif')
                v = [l for l in o.split('\n') if l.startswith('VIOLATION')]
                if rc != 0 or v:
                    alarms[c] = {'exit': rc, 'violation_lines': v[:2], 'summary': o.strip().split('\n')[-1]}
                    # keep the first replay for inspection
                    for l in v[:1]:
                        pth = l.split('replay=')[1].split(' ')[0]
                        if os.path.exists(pth):
                            os.makedirs('/verif/work/harmless', exist_ok=True)
                            shutil.copy(pth, '/verif/work/harmless/%s-%s-%s.case' % (pid, letter, c))
    finally:
        sh('git -C /repo checkout -- .')
        sh('git -C /repo clean -fdq')
    if os.environ.get('HARMLESS_CHECKS'):
        print(pid, letter, 'applies', res.get('applies'), 'suite', res.get('suite_passes'), 'alarms', sorted(alarms), '(checks: %s)' % os.environ['HARMLESS_CHECKS'])
        return
    d = '/verif/harmless/%s-%s' % (pid, letter)
    os.makedirs(d, exist_ok=True)
    shutil.copy(diff, d + '/patch.diff')
    md = os.path.join(out, letter + '.md')
    meta = dict(res, description_by_author=open(md).read() if os.path.exists(md) else '', alarms=alarms,
                what_was_run='tools/harmless_eval.py: git apply to /repo; go test ./...; ./check C01..C20 (quick, seed 1); git checkout -- .')
    json.dump(meta, open(d + '/meta.json', 'w'), indent=1)
    print(pid, letter, 'applies', res.get('applies'), 'suite', res.get('suite_passes'), 'alarms', sorted(alarms))
main()
