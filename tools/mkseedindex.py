#!/usr/bin/env python3
"""regenerate seeded/INDEX.md from the meta.json files"""
import json, os, re
root = os.path.join(os.path.dirname(os.path.abspath(__file__)), '..', 'seeded')
rows = []
for d in sorted(os.listdir(root)):
    m = os.path.join(root, d, 'meta.json')
    if not os.path.exists(m):
        continue
    meta = json.load(open(m))
    diff = open(os.path.join(root, d, 'patch.diff')).read()
    files = sorted(set(os.path.basename(f) for f in re.findall(r'^\+\+\+ b/(\S+)', diff, flags=re.M)))
    desc = re.sub(r'\s+', ' ', meta.get('description_by_author', '')).strip()
    desc = re.sub(r'^#+\s*', '', desc)[:150].replace('|', '/')
    rows.append('| %s | %s | %s | %s | %s |' % (d, meta['breaks_property'], ', '.join(files), desc, ', '.join(meta.get('caught_by', [])) or 'MISSED'))
with open(os.path.join(root, 'INDEX.md'), 'w') as fh:
    fh.write('| seeded change | breaks | files touched | what it is (author\'s words, abridged) | caught by (quick tier, seed 1) |\n|---|---|---|---|---|\n')
    fh.write('\n'.join(rows) + '\n')
print(len(rows), 'rows;', sum('MISSED' in r for r in rows), 'missed')
