#!/bin/bash
# Re-run the negative control: every behaviour-preserving refactoring under harmless/ x all twenty quick checks.
# Patches /repo temporarily (one at a time, undone straight afterwards): run nothing else meanwhile.
export GOFLAGS=-mod=mod GOPROXY=off GOSUMDB=off GOTOOLCHAIN=local
cd /verif
out=${1:-work/harmless_regress.txt}
: > "$out"
for p in $(ls harmless); do
  pid=${p%-*}; l=${p#*-}
  mkdir -p /tmp/mut/$pid-out
  cp harmless/$p/patch.diff /tmp/mut/$pid-out/$l.diff
  python3 - "$p" <<'PY'
import json,sys
m=json.load(open('/verif/harmless/%s/meta.json'%sys.argv[1]))
pid,l=sys.argv[1].split('-')
open('/tmp/mut/%s-out/%s.md'%(pid,l),'w').write(m.get('description_by_author',''))
PY
  python3 tools/harmless_eval.py $pid $l 2>&1 | tail -1 >> "$out"
done
echo "alarms: $(grep -c "alarms \['" "$out") of $(wc -l < "$out")"
grep "alarms \['" "$out"
