#!/usr/bin/env python3
"""Statement coverage of /repo's library packages under the correspondence programs (all generators, quick tier).
Writes /verif/notes/coverage.txt (a measured indicator of how much of the code the tie exercises; not a check)."""
import sys, os, random, subprocess, shutil
sys.path.insert(0, '/verif/gen')
import props, runner
env = dict(os.environ, GOFLAGS='-mod=mod', GOPROXY='off', GOSUMDB='off', GOTOOLCHAIN='local')
covbin = '/verif/.build/harness-cover'
subprocess.run(['cp', '/repo/go.sum', '/verif/harness/go.sum'], check=True)
r = subprocess.run(['go', 'build', '-cover', '-coverpkg=github.com/sahandsafizadeh/qeep/...,qeepharness', '-tags', 'verif', '-o', covbin, '.'],
                   cwd='/verif/harness', env=env, capture_output=True, text=True)
assert r.returncode == 0, r.stderr
covdir = '/verif/work/cov'
shutil.rmtree(covdir, ignore_errors=True); os.makedirs(covdir)
runner.HARNESS = covbin
tot = 0
rounds = int(sys.argv[1]) if len(sys.argv) > 1 else 1
for pid, spec in sorted(props.REGISTRY.items()):
    if spec.get('race'):
        continue
    for rd in range(rounds):
        rng = random.Random(1000 * rd + 7)
        progs = spec['gen'](rng, 'quick')
        runner.run_all(progs, shards=8, env_extra={'GOCOVERDIR': covdir}, cmd_timeout_ms=spec.get('cmd_timeout_ms'))
        tot += len(progs)
out = subprocess.run(['go', 'tool', 'covdata', 'percent', '-i=' + covdir], cwd='/verif/harness', env=env, capture_output=True, text=True).stdout
subprocess.run(['go', 'tool', 'covdata', 'textfmt', '-i=' + covdir, '-o', covdir + '/cover.txt'], cwd='/verif/harness', env=env)
fn = subprocess.run(['go', 'tool', 'cover', '-func=' + covdir + '/cover.txt'], cwd='/verif/harness', env=env, capture_output=True, text=True).stdout
low = [l for l in fn.split('\n') if 'sahandsafizadeh' in l and not l.rstrip().endswith('100.0%')]
with open('/verif/notes/coverage.txt', 'w') as fh:
    fh.write('statement coverage of the library under %d correspondence programs (quick generators, %d round(s))\n\n' % (tot, rounds))
    fh.write('\n'.join(l for l in out.split('\n') if 'sahandsafizadeh' in l) + '\n\nfunctions below 100%:\n' + '\n'.join(low) + '\n')
print(open('/verif/notes/coverage.txt').read())
shutil.rmtree(covdir, ignore_errors=True)
