module qeepextract

go 1.22
