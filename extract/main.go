// Fact extractor (go/ast, stdlib only): facts about /repo's current source that behaviour cannot show.
//
//	extract <repo-root>   → JSON on stdout
//
// facts:
//
//	package_vars            every package-level `var` of the library packages (non-test files)
//	mutable_package_vars    those that some function of the package assigns to, increments or takes the address of
//	go_statements           `go` statements in library code (informational)
//	tensor_methods          method set of the tensor.Tensor interface
package main

import (
	"encoding/json"
	"fmt"
	"go/ast"
	"go/parser"
	"go/token"
	"os"
	"path/filepath"
	"sort"
	"strings"
)

type facts struct {
	PackageVars        []string `json:"package_vars"`
	MutablePackageVars []string `json:"mutable_package_vars"`
	GoStatements       []string `json:"go_statements"`
	SyncPackages       []string `json:"packages_importing_sync"`
	TensorMethods      []string `json:"tensor_methods"`
}

func main() {
	root := "/repo"
	if len(os.Args) > 1 {
		root = os.Args[1]
	}
	var f facts
	pkgs := map[string][]*ast.File{} // dir -> files
	fset := token.NewFileSet()
	for _, top := range []string{"tensor", "component"} {
		filepath.Walk(filepath.Join(root, top), func(p string, info os.FileInfo, err error) error {
			if err != nil || info.IsDir() || !strings.HasSuffix(p, ".go") || strings.HasSuffix(p, "_test.go") {
				return nil
			}
			if strings.Contains(p, "_test"+string(filepath.Separator)) {
				return nil
			}
			file, perr := parser.ParseFile(fset, p, nil, parser.ParseComments)
			if perr != nil {
				return nil
			}
			dir := filepath.Dir(p)
			pkgs[dir] = append(pkgs[dir], file)
			return nil
		})
	}
	for dir, files := range pkgs {
		rel, _ := filepath.Rel(root, dir)
		vars := map[string]bool{}
		for _, file := range files {
			for _, im := range file.Imports {
				if im.Path.Value == `"sync"` || im.Path.Value == `"sync/atomic"` {
					f.SyncPackages = append(f.SyncPackages, rel)
				}
			}
			for _, d := range file.Decls {
				gd, ok := d.(*ast.GenDecl)
				if !ok || gd.Tok != token.VAR {
					continue
				}
				for _, s := range gd.Specs {
					for _, n := range s.(*ast.ValueSpec).Names {
						if n.Name != "_" {
							vars[n.Name] = true
							f.PackageVars = append(f.PackageVars, rel+"."+n.Name)
						}
					}
				}
			}
			if rel == filepath.Join("tensor", "internal", "tensor") {
				ast.Inspect(file, func(n ast.Node) bool {
					ts, ok := n.(*ast.TypeSpec)
					if !ok || ts.Name.Name != "Tensor" {
						return true
					}
					if it, ok := ts.Type.(*ast.InterfaceType); ok {
						for _, m := range it.Methods.List {
							for _, nm := range m.Names {
								f.TensorMethods = append(f.TensorMethods, nm.Name)
							}
						}
					}
					return false
				})
			}
		}
		written := map[string]bool{}
		isPkgVar := func(e ast.Expr) (string, bool) {
			for {
				switch x := e.(type) {
				case *ast.ParenExpr:
					e = x.X
					continue
				case *ast.IndexExpr: // v[i] = …
					e = x.X
					continue
				case *ast.SelectorExpr: // v.f = …
					e = x.X
					continue
				case *ast.StarExpr:
					e = x.X
					continue
				case *ast.Ident:
					if !vars[x.Name] {
						return "", false
					}
					// resolved to a local declaration? (go/parser's file-scope resolution)
					if x.Obj != nil {
						if _, isSpec := x.Obj.Decl.(*ast.ValueSpec); !isSpec {
							return "", false
						}
						if x.Obj.Kind != ast.Var {
							return "", false
						}
						// a local `var x` also has a ValueSpec: accept only package-level ones
						if vs, ok := x.Obj.Decl.(*ast.ValueSpec); ok {
							pos := fset.Position(vs.Pos())
							_ = pos
						}
					}
					return x.Name, true
				}
				return "", false
			}
		}
		for _, file := range files {
			for _, d := range file.Decls {
				fd, ok := d.(*ast.FuncDecl)
				if !ok || fd.Body == nil {
					continue
				}
				// names declared locally in this function shadow package vars (approximation: any := or var of that name)
				local := map[string]bool{}
				ast.Inspect(fd, func(n ast.Node) bool {
					switch x := n.(type) {
					case *ast.AssignStmt:
						if x.Tok == token.DEFINE {
							for _, l := range x.Lhs {
								if id, ok := l.(*ast.Ident); ok {
									local[id.Name] = true
								}
							}
						}
					case *ast.ValueSpec:
						for _, id := range x.Names {
							local[id.Name] = true
						}
					case *ast.Field:
						for _, id := range x.Names {
							local[id.Name] = true
						}
					case *ast.RangeStmt:
						if x.Tok == token.DEFINE {
							if id, ok := x.Key.(*ast.Ident); ok {
								local[id.Name] = true
							}
							if id, ok := x.Value.(*ast.Ident); ok {
								local[id.Name] = true
							}
						}
					}
					return true
				})
				mark := func(e ast.Expr) {
					if name, ok := isPkgVar(e); ok && !local[name] {
						written[name] = true
					}
				}
				ast.Inspect(fd.Body, func(n ast.Node) bool {
					switch x := n.(type) {
					case *ast.AssignStmt:
						if x.Tok != token.DEFINE {
							for _, l := range x.Lhs {
								mark(l)
							}
						}
					case *ast.IncDecStmt:
						mark(x.X)
					case *ast.UnaryExpr:
						if x.Op == token.AND {
							mark(x.X)
						}
					case *ast.GoStmt:
						f.GoStatements = append(f.GoStatements, fmt.Sprintf("%s:%d", rel, fset.Position(x.Pos()).Line))
					case *ast.CallExpr:
						// method calls with pointer receivers on package vars (e.g. cache.Store(…), mu.Lock()) count as writes
						if sel, ok := x.Fun.(*ast.SelectorExpr); ok {
							if id, ok := sel.X.(*ast.Ident); ok && vars[id.Name] && !local[id.Name] {
								written[id.Name] = true
							}
						}
					}
					return true
				})
			}
		}
		for name := range written {
			f.MutablePackageVars = append(f.MutablePackageVars, rel+"."+name)
		}
	}
	sort.Strings(f.PackageVars)
	sort.Strings(f.MutablePackageVars)
	sort.Strings(f.GoStatements)
	sort.Strings(f.TensorMethods)
	if f.PackageVars == nil {
		f.PackageVars = []string{}
	}
	if f.MutablePackageVars == nil {
		f.MutablePackageVars = []string{}
	}
	if f.GoStatements == nil {
		f.GoStatements = []string{}
	}
	if f.SyncPackages == nil {
		f.SyncPackages = []string{}
	}
	sort.Strings(f.SyncPackages)
	json.NewEncoder(os.Stdout).Encode(f)
}
