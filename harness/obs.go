package main

import (
	"reflect"
	"strconv"
	"strings"

	"github.com/sahandsafizadeh/qeep/tensor"
)

// dimsAndData renders `dims=<ints> data=<f>,...` of a non-nil tensor through Shape() and At().
// It calls into the library and must run inside a guard.
func dimsAndData(t tensor.Tensor, sep string) (string, error) {
	shape := t.Shape()

	n := 1
	tooBig := false
	for _, d := range shape {
		if d <= 0 {
			n = 0
			break
		}
		if d > elemCap || n*d > elemCap {
			tooBig = true
			break
		}
		n *= d
	}

	var sb strings.Builder
	sb.WriteString("dims=")
	sb.WriteString(joinInts(shape))
	sb.WriteString(sep)
	sb.WriteString("data=")

	switch {
	case tooBig:
		sb.WriteString("TOOBIG")
	case n == 0:
		sb.WriteString("-")
	default:
		idx := make([]int, len(shape))
		for c := 0; c < n; c++ {
			v, err := t.At(idx...)
			if err != nil {
				return "", err
			}
			if c > 0 {
				sb.WriteByte(',')
			}
			sb.WriteString(fbits(v))
			for p := len(idx) - 1; p >= 0; p-- { // row-major odometer
				idx[p]++
				if idx[p] < shape[p] {
					break
				}
				idx[p] = 0
			}
		}
	}
	return sb.String(), nil
}

// gradCtxInfo reads tracked / bpdirty / len(backEdges) of the value returned by GradContext().
// With the `verif` hooks of DESIGN.md 4.3 present the accessor methods are used, otherwise
// reflection on the unexported fields. Unknown parts are reported as `?`.
func gradCtxInfo(t tensor.Tensor) (tr, di, ed string) {
	tr, di, ed = "?", "?", "?"
	g := t.GradContext()
	if g == nil {
		return
	}

	b2s := func(b bool) string {
		if b {
			return "1"
		}
		return "0"
	}

	if hk, ok := g.(interface {
		VerifTracked() bool
		VerifDirty() bool
		VerifEdges() int
	}); ok {
		rv := reflect.ValueOf(g)
		if rv.Kind() != reflect.Ptr || !rv.IsNil() {
			return b2s(hk.VerifTracked()), b2s(hk.VerifDirty()), strconv.Itoa(hk.VerifEdges())
		}
	}

	rv := reflect.ValueOf(g)
	for rv.Kind() == reflect.Ptr || rv.Kind() == reflect.Interface {
		if rv.IsNil() {
			return
		}
		rv = rv.Elem()
	}
	if rv.Kind() != reflect.Struct {
		return
	}
	if f := rv.FieldByName("tracked"); f.IsValid() && f.Kind() == reflect.Bool {
		tr = b2s(f.Bool())
	}
	if f := rv.FieldByName("bpdirty"); f.IsValid() && f.Kind() == reflect.Bool {
		di = b2s(f.Bool())
	}
	if f := rv.FieldByName("backEdges"); f.IsValid() && (f.Kind() == reflect.Slice || f.Kind() == reflect.Map || f.Kind() == reflect.Array) {
		ed = strconv.Itoa(f.Len())
	}
	return
}

// observe renders the full obs payload of a non-nil tensor (library calls inside; run guarded).
func observe(t tensor.Tensor) (string, error) {
	dd, err := dimsAndData(t, " ")
	if err != nil {
		return "", err
	}
	tr, di, ed := gradCtxInfo(t)

	grad := "nil"
	if g := t.Gradient(); !isNilTensor(g) {
		gd, err := dimsAndData(g, ";")
		if err != nil {
			return "", err
		}
		grad = gd
	}
	return dd + " tr=" + tr + " di=" + di + " ed=" + ed + " grad=" + grad, nil
}
