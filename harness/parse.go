package main

import (
	"math"
	"reflect"
	"strconv"
	"strings"

	"github.com/sahandsafizadeh/qeep/component/layers"
	"github.com/sahandsafizadeh/qeep/component/metrics"
	"github.com/sahandsafizadeh/qeep/component/optimizers"
	"github.com/sahandsafizadeh/qeep/tensor"
)

/* ----- handle values ----- */

type kind int

const (
	kNone kind = iota // tombstone (unbound)
	kTensor
	kInts
	kRanges
	kTensors
	kData
	kInit
	kLayer
	kPtr
	kLoss
	kMetric
	kOpt
)

type forwarder interface {
	Forward(xs ...tensor.Tensor) (tensor.Tensor, error)
}

type weighted interface {
	Weights() []layers.Weight
}

type computer interface {
	Compute(yp tensor.Tensor, yt tensor.Tensor) (tensor.Tensor, error)
}

// dataVar boxes a nested data value (float64 .. [][][][]float64) so that depth-0 data can be replaced.
type dataVar struct {
	depth int
	v     any
}

type val struct {
	k       kind
	t       tensor.Tensor   // kTensor (may be nil: handle bound to nil)
	ints    []int           // kInts
	rngs    []tensor.Range  // kRanges
	ts      []tensor.Tensor // kTensors
	data    *dataVar        // kData
	ini     layers.Initializer
	iniRand bool // kInit: the initializer draws random numbers
	layer   forwarder
	ptr     *tensor.Tensor
	loss    computer
	metric  *metrics.Accuracy
	opt     *optimizers.SGD
}

// Parse status convention: "" = fine, "skip" = unbound / wrong kind, "bad" = syntax.

func isNilTensor(t tensor.Tensor) bool {
	if t == nil {
		return true
	}
	rv := reflect.ValueOf(t)
	return rv.Kind() == reflect.Ptr && rv.IsNil()
}

func validName(s string) bool {
	if s == "" {
		return false
	}
	for i := 0; i < len(s); i++ {
		c := s[i]
		switch {
		case c == '_' || (c >= 'A' && c <= 'Z') || (c >= 'a' && c <= 'z'):
		case c >= '0' && c <= '9' && i > 0:
		default:
			return false
		}
	}
	return true
}

/* ----- floats and ints ----- */

func fbits(v float64) string {
	return strconv.FormatUint(math.Float64bits(v), 10)
}

func joinFloats(vs []float64) string {
	if len(vs) == 0 {
		return "-"
	}
	var sb strings.Builder
	sb.Grow(len(vs) * 20)
	for i, v := range vs {
		if i > 0 {
			sb.WriteByte(',')
		}
		sb.WriteString(fbits(v))
	}
	return sb.String()
}

func joinInts(vs []int) string {
	if vs == nil {
		return "-"
	}
	if len(vs) == 0 {
		return "-"
	}
	parts := make([]string, len(vs))
	for i, v := range vs {
		parts[i] = strconv.Itoa(v)
	}
	return strings.Join(parts, ",")
}

func parseFloat(tok string) (float64, string) {
	u, err := strconv.ParseUint(tok, 10, 64)
	if err != nil {
		return 0, "bad"
	}
	return math.Float64frombits(u), ""
}

func parseInt(tok string) (int, string) {
	n, err := strconv.Atoi(tok)
	if err != nil {
		return 0, "bad"
	}
	return n, ""
}

/* ----- lists ----- */

func (e *env) varOf(tok string, k kind) (*val, string) {
	name := tok[1:]
	if !validName(name) {
		return nil, "bad"
	}
	v := e.lookup(name)
	if v == nil || v.k != k {
		return nil, "skip"
	}
	return v, ""
}

func (e *env) parseInts(tok string) ([]int, string) {
	switch {
	case tok == "-":
		return []int{}, ""
	case tok == "nil":
		return nil, ""
	case strings.HasPrefix(tok, "$"):
		v, st := e.varOf(tok, kInts)
		if st != "" {
			return nil, st
		}
		return v.ints, ""
	}
	parts := strings.Split(tok, ",")
	out := make([]int, len(parts))
	for i, p := range parts {
		n, st := parseInt(p)
		if st != "" {
			return nil, st
		}
		out[i] = n
	}
	return out, ""
}

func parseRange(tok string) (tensor.Range, string) {
	i := strings.IndexByte(tok, ':')
	if i < 0 {
		return tensor.Range{}, "bad"
	}
	from, st := parseInt(tok[:i])
	if st != "" {
		return tensor.Range{}, st
	}
	to, st := parseInt(tok[i+1:])
	if st != "" {
		return tensor.Range{}, st
	}
	return tensor.Range{From: from, To: to}, ""
}

func (e *env) parseRanges(tok string) ([]tensor.Range, string) {
	switch {
	case tok == "-":
		return []tensor.Range{}, ""
	case tok == "nil":
		return nil, ""
	case strings.HasPrefix(tok, "$"):
		v, st := e.varOf(tok, kRanges)
		if st != "" {
			return nil, st
		}
		return v.rngs, ""
	}
	parts := strings.Split(tok, ",")
	out := make([]tensor.Range, len(parts))
	for i, p := range parts {
		r, st := parseRange(p)
		if st != "" {
			return nil, st
		}
		out[i] = r
	}
	return out, ""
}

// parseTensor accepts `nil` or a tensor handle (which may itself be bound to nil).
func (e *env) parseTensor(tok string) (tensor.Tensor, string) {
	if tok == "nil" {
		return nil, ""
	}
	if !validName(tok) {
		return nil, "bad"
	}
	v := e.lookup(tok)
	if v == nil || v.k != kTensor {
		return nil, "skip"
	}
	return v.t, ""
}

// parseRecv is parseTensor for a method receiver: it must be a bound, non-nil tensor.
func (e *env) parseRecv(tok string) (tensor.Tensor, string) {
	if tok == "nil" {
		return nil, "skip"
	}
	t, st := e.parseTensor(tok)
	if st != "" {
		return nil, st
	}
	if isNilTensor(t) {
		return nil, "skip"
	}
	return t, ""
}

func (e *env) parseTensors(tok string) ([]tensor.Tensor, string) {
	switch {
	case tok == "-":
		return []tensor.Tensor{}, ""
	case tok == "nil":
		return nil, ""
	case strings.HasPrefix(tok, "$"):
		v, st := e.varOf(tok, kTensors)
		if st != "" {
			return nil, st
		}
		return v.ts, ""
	}
	parts := strings.Split(tok, ",")
	out := make([]tensor.Tensor, len(parts))
	for i, p := range parts {
		t, st := e.parseTensor(p)
		if st != "" {
			return nil, st
		}
		out[i] = t
	}
	return out, ""
}

func (e *env) parseConf(tok string) (*tensor.Config, string) {
	c, st := parseConf(tok)
	if c != nil {
		e.later(func() { c.Device, c.GradTrack = 9, !c.GradTrack })
	}
	return c, st
}

func parseConf(tok string) (*tensor.Config, string) {
	switch tok {
	case "T":
		return &tensor.Config{Device: tensor.CPU, GradTrack: true}, ""
	case "U":
		return &tensor.Config{Device: tensor.CPU, GradTrack: false}, ""
	case "nil":
		return nil, ""
	case "bad":
		return &tensor.Config{Device: 0, GradTrack: true}, ""
	case "bad7":
		return &tensor.Config{Device: 7, GradTrack: true}, ""
	}
	return nil, "bad"
}

// handle looks up a handle of the given kind.
func (e *env) handle(tok string, k kind) (*val, string) {
	if !validName(tok) {
		return nil, "bad"
	}
	v := e.lookup(tok)
	if v == nil || v.k != k {
		return nil, "skip"
	}
	return v, ""
}

/* ----- nested data literals ----- */

type litParser struct {
	s string
	i int
}

type litError struct{}

func (p *litParser) fail() { panic(litError{}) }

func (p *litParser) peek() byte {
	if p.i >= len(p.s) {
		return 0
	}
	return p.s[p.i]
}

func (p *litParser) expect(c byte) {
	if p.peek() != c {
		p.fail()
	}
	p.i++
}

func (p *litParser) leaf() float64 {
	j := p.i
	for j < len(p.s) && p.s[j] >= '0' && p.s[j] <= '9' {
		j++
	}
	if j == p.i {
		p.fail()
	}
	u, err := strconv.ParseUint(p.s[p.i:j], 10, 64)
	if err != nil {
		p.fail()
	}
	p.i = j
	return math.Float64frombits(u)
}

func litList[T any](p *litParser, elem func(*litParser) T) []T {
	p.expect('[')
	out := []T{}
	if p.peek() == ']' {
		p.i++
		return out
	}
	for {
		out = append(out, elem(p))
		if p.peek() == ',' {
			p.i++
			continue
		}
		p.expect(']')
		return out
	}
}

func lit1(p *litParser) []float64       { return litList(p, (*litParser).leaf) }
func lit2(p *litParser) [][]float64     { return litList(p, lit1) }
func lit3(p *litParser) [][][]float64   { return litList(p, lit2) }
func lit4(p *litParser) [][][][]float64 { return litList(p, lit3) }

// parseData builds the statically typed nested value of the given depth.
func parseData(depthTok, lit string) (dv *dataVar, st string) {
	depth, st := parseInt(depthTok)
	if st != "" || depth < 0 || depth > 4 {
		return nil, "bad"
	}
	defer func() {
		if r := recover(); r != nil {
			if _, ok := r.(litError); !ok {
				panic(r)
			}
			dv, st = nil, "bad"
		}
	}()
	p := &litParser{s: lit}
	var v any
	switch depth {
	case 0:
		v = p.leaf()
	case 1:
		v = lit1(p)
	case 2:
		v = lit2(p)
	case 3:
		v = lit3(p)
	case 4:
		v = lit4(p)
	}
	if p.i != len(p.s) {
		return nil, "bad"
	}
	return &dataVar{depth: depth, v: v}, ""
}

// setData mutates the data variable in place (index panics propagate to the caller).
func setData(dv *dataVar, path []int, f float64) {
	switch v := dv.v.(type) {
	case float64:
		dv.v = f
	case []float64:
		v[path[0]] = f
	case [][]float64:
		v[path[0]][path[1]] = f
	case [][][]float64:
		v[path[0]][path[1]][path[2]] = f
	case [][][][]float64:
		v[path[0]][path[1]][path[2]][path[3]] = f
	}
}

/* ----- sizes ----- */

const elemCap = 100000

// prodPos is the product of the positive entries of dims, saturating at cap+1.
func prodPos(dims []int, cap int) int {
	n := 1
	for _, d := range dims {
		if d > 0 {
			if d > cap || n*d > cap {
				return cap + 1
			}
			n *= d
		}
	}
	return n
}

func rawK(n int) int {
	k := 2 * n
	if k < 64 {
		k = 64
	}
	if k > 2*elemCap {
		k = 2 * elemCap
	}
	return k
}
