package main

import (
	"fmt"
	"os"
	"strconv"
	"strings"

	"golang.org/x/exp/rand"

	"github.com/sahandsafizadeh/qeep/component/initializers"
	"github.com/sahandsafizadeh/qeep/component/layers"
	"github.com/sahandsafizadeh/qeep/component/layers/activations"
	"github.com/sahandsafizadeh/qeep/component/losses"
	"github.com/sahandsafizadeh/qeep/component/metrics"
	"github.com/sahandsafizadeh/qeep/component/optimizers"
	"github.com/sahandsafizadeh/qeep/tensor"
)

type outcome struct {
	st      string
	payload string
	bind    *val
}

var (
	oBad  = outcome{st: "bad"}
	oSkip = outcome{st: "skip"}
	oOK   = outcome{st: "ok"}
)

func fail(st string) outcome { return outcome{st: st} }

/* ----- method tables ----- */

type T = tensor.Tensor

var unaryOps = map[string]func(T) T{
	"exp": T.Exp, "log": T.Log, "sin": T.Sin, "cos": T.Cos, "tan": T.Tan,
	"sinh": T.Sinh, "cosh": T.Cosh, "tanh": T.Tanh,
}

var scalarArgOps = map[string]func(T, float64) T{
	"scale": T.Scale, "pow": T.Pow,
}

var binaryOps = map[string]func(T, T) (T, error){
	"eq": T.Eq, "ne": T.Ne, "gt": T.Gt, "ge": T.Ge, "lt": T.Lt, "le": T.Le,
	"elmax": T.ElMax, "elmin": T.ElMin,
	"add": T.Add, "sub": T.Sub, "mul": T.Mul, "div": T.Div,
	"dot": T.Dot, "matmul": T.MatMul,
}

var intArgOps = map[string]func(T, int) (T, error){
	"unsqueeze": T.UnSqueeze, "squeeze": T.Squeeze, "flatten": T.Flatten,
	"sumalong": T.SumAlong, "maxalong": T.MaxAlong, "minalong": T.MinAlong, "avgalong": T.AvgAlong,
	"varalong": T.VarAlong, "stdalong": T.StdAlong, "meanalong": T.MeanAlong,
}

var intsArgOps = map[string]func(T, []int) (T, error){
	"reshape": T.Reshape, "broadcast": T.Broadcast,
}

var reducerOps = map[string]func(T) float64{
	"sum": T.Sum, "max": T.Max, "min": T.Min, "avg": T.Avg, "var": T.Var, "std": T.Std, "mean": T.Mean,
}

// commands used without the `x = ` prefix; everything else known binds a handle.
var plainCmds = map[string]bool{
	"setint": true, "setrange": true, "settensor": true, "setdata": true,
	"sum": true, "max": true, "min": true, "avg": true, "var": true, "std": true, "mean": true,
	"nelems": true, "at": true, "equals": true,
	"bp": true, "reset": true, "obs": true,
	"setptr": true, "acc": true, "result": true, "upd": true, "seedrng": true,
}

/* ----- line execution ----- */

// execLine executes one command line (already tokenised) and applies its binding.
func (e *env) execLine(toks []string) (st, payload string) {
	name := ""
	cmd, args := toks[0], toks[1:]
	binding := len(toks) >= 2 && toks[1] == "="
	if binding {
		name = toks[0]
		if len(toks) < 3 || !validName(name) {
			return "bad", ""
		}
		cmd, args = toks[2], toks[3:]
	}

	o := e.safeDispatch(cmd, args, binding)
	for _, f := range e.after {
		f()
	}
	e.after = nil

	if binding {
		if o.st == "ok" && o.bind != nil {
			e.bind(name, o.bind)
		} else {
			e.unbind(name)
		}
	}
	return o.st, o.payload
}

// safeDispatch turns a bug of the harness itself (a panic outside any guarded library call) into a
// loud `bad internal=...` line instead of killing the process.
func (e *env) safeDispatch(cmd string, args []string, binding bool) (o outcome) {
	defer func() {
		if r := recover(); r != nil {
			msg := strings.Map(func(c rune) rune {
				if c == ' ' || c == '\n' || c == '\t' {
					return '_'
				}
				return c
			}, fmt.Sprint(r))
			o = outcome{st: "bad", payload: "internal=" + msg}
		}
	}()
	return e.dispatch(cmd, args, binding)
}

// ownGuard runs harness-side mutation of caller-owned variables: ok, or `panic` (index out of range).
func ownGuard(f func()) (o outcome) {
	defer func() {
		if r := recover(); r != nil {
			o = fail("panic")
		}
	}()
	f()
	return oOK
}

func (e *env) tensorCall(f func() (T, error)) outcome {
	var r T
	st := e.guard(func() error {
		var err error
		r, err = f()
		return err
	})
	if st != "ok" {
		// "an error (and no result)": the interface value that comes with an error must be nil — a typed nil pointer
		// inside a non-nil interface passes every `== nil` test of the caller and panics on first use
		if st == "err" && r != nil {
			return fail("err-with-result")
		}
		return fail(st)
	}
	return outcome{st: "ok", bind: &val{k: kTensor, t: r}}
}

// randCall implements the Randomness section: seed, K uniform raws, seed, K normal raws, seed, run.
func (e *env) randCall(k int, f func() error) (string, string) {
	h := e.h
	if e.direct && os.Getenv("HARNESS_NO_RAW") != "" {
		// concurrency runs: call the random constructor without serialising or re-seeding, so that
		// goroutines really draw from gonum's global source at the same time; no raw payload
		return e.guard(f), ""
	}
	if e.direct {
		h.rngMu.Lock()
		defer h.rngMu.Unlock()
	}
	seed := h.rngBase + h.rngC
	h.rngC++

	us := make([]float64, k)
	ns := make([]float64, k)
	rand.Seed(seed)
	for i := range us {
		us[i] = rand.Float64()
	}
	rand.Seed(seed)
	for i := range ns {
		ns[i] = rand.NormFloat64()
	}
	rand.Seed(seed)

	st := e.guard(f)
	if st != "ok" {
		return st, ""
	}
	return st, "raw=u:" + joinFloats(us) + ";n:" + joinFloats(ns)
}

func (e *env) randTensorCall(k int, f func() (T, error)) outcome {
	var r T
	st, payload := e.randCall(k, func() error {
		var err error
		r, err = f()
		return err
	})
	if st != "ok" {
		if st == "err" && r != nil {
			return fail("err-with-result")
		}
		return fail(st)
	}
	return outcome{st: "ok", payload: payload, bind: &val{k: kTensor, t: r}}
}

func (e *env) dispatch(cmd string, a []string, binding bool) outcome {
	n := len(a)

	// --- commands whose name is shared between families, resolved by arity ---
	if cmd == "tanh" && n == 0 { // activation `a = tanh` (vs. tensor method `t = tanh <t>`)
		if !binding {
			return oBad
		}
		return outcome{st: "ok", bind: &val{k: kLayer, layer: activations.NewTanh()}}
	}

	// --- binding form must match the command ---
	switch {
	case plainCmds[cmd]:
		if binding {
			return oBad
		}
	case isBindCmd(cmd):
		if !binding {
			return oBad
		}
	default:
		return oBad // unknown command
	}

	/* ----- tensor method families ----- */

	if f, ok := unaryOps[cmd]; ok {
		if n != 1 {
			return oBad
		}
		t, st := e.parseRecv(a[0])
		if st != "" {
			return fail(st)
		}
		return e.tensorCall(func() (T, error) { return f(t), nil })
	}

	if f, ok := scalarArgOps[cmd]; ok {
		if n != 2 {
			return oBad
		}
		t, st := e.parseRecv(a[0])
		x, st2 := parseFloat(a[1])
		if st2 != "" {
			return oBad
		}
		if st != "" {
			return fail(st)
		}
		return e.tensorCall(func() (T, error) { return f(t, x), nil })
	}

	if f, ok := binaryOps[cmd]; ok {
		if n != 2 {
			return oBad
		}
		t, st := e.parseRecv(a[0])
		if st != "" {
			return fail(st)
		}
		u, st := e.parseTensor(a[1])
		if st != "" {
			return fail(st)
		}
		return e.tensorCall(func() (T, error) { return f(t, u) })
	}

	if f, ok := intArgOps[cmd]; ok {
		if n != 2 {
			return oBad
		}
		d, st2 := parseInt(a[1])
		if st2 != "" {
			return oBad
		}
		t, st := e.parseRecv(a[0])
		if st != "" {
			return fail(st)
		}
		return e.tensorCall(func() (T, error) { return f(t, d) })
	}

	if f, ok := intsArgOps[cmd]; ok {
		if n != 2 {
			return oBad
		}
		t, st := e.parseRecv(a[0])
		if st != "" {
			return fail(st)
		}
		shape, st := e.parseInts(a[1])
		if st != "" {
			return fail(st)
		}
		return e.tensorCall(func() (T, error) { return f(t, shape) })
	}

	if f, ok := reducerOps[cmd]; ok {
		if n != 1 {
			return oBad
		}
		t, st := e.parseRecv(a[0])
		if st != "" {
			return fail(st)
		}
		var v float64
		st = e.guard(func() error { v = f(t); return nil })
		if st != "ok" {
			return fail(st)
		}
		return outcome{st: "ok", payload: "v=" + fbits(v)}
	}

	switch cmd {

	/* ----- caller-owned variables ----- */

	case "ints":
		if n != 1 {
			return oBad
		}
		v, st := e.parseInts(a[0])
		if st != "" {
			return fail(st)
		}
		return outcome{st: "ok", bind: &val{k: kInts, ints: v}}

	case "ranges":
		if n != 1 {
			return oBad
		}
		v, st := e.parseRanges(a[0])
		if st != "" {
			return fail(st)
		}
		return outcome{st: "ok", bind: &val{k: kRanges, rngs: v}}

	case "tensors":
		if n != 1 {
			return oBad
		}
		v, st := e.parseTensors(a[0])
		if st != "" {
			return fail(st)
		}
		return outcome{st: "ok", bind: &val{k: kTensors, ts: v}}

	case "data":
		if n != 2 {
			return oBad
		}
		dv, st := parseData(a[0], a[1])
		if st != "" {
			return fail(st)
		}
		return outcome{st: "ok", bind: &val{k: kData, data: dv}}

	case "setint":
		if n != 3 {
			return oBad
		}
		pos, st1 := parseInt(a[1])
		x, st2 := parseInt(a[2])
		if st1 != "" || st2 != "" {
			return oBad
		}
		v, st := e.handle(a[0], kInts)
		if st != "" {
			return fail(st)
		}
		return ownGuard(func() { v.ints[pos] = x })

	case "setrange":
		if n != 3 {
			return oBad
		}
		pos, st1 := parseInt(a[1])
		r, st2 := parseRange(a[2])
		if st1 != "" || st2 != "" {
			return oBad
		}
		v, st := e.handle(a[0], kRanges)
		if st != "" {
			return fail(st)
		}
		return ownGuard(func() { v.rngs[pos] = r })

	case "settensor":
		if n != 3 {
			return oBad
		}
		pos, st1 := parseInt(a[1])
		if st1 != "" {
			return oBad
		}
		v, st := e.handle(a[0], kTensors)
		if st != "" {
			return fail(st)
		}
		t, st := e.parseTensor(a[2])
		if st != "" {
			return fail(st)
		}
		return ownGuard(func() { v.ts[pos] = t })

	case "setdata":
		if n != 3 {
			return oBad
		}
		f, st1 := parseFloat(a[2])
		if st1 != "" {
			return oBad
		}
		var path []int
		if a[1] != "-" {
			var st2 string
			path, st2 = e.parseInts(a[1])
			if st2 != "" || strings.HasPrefix(a[1], "$") || a[1] == "nil" {
				return oBad
			}
		}
		v, st := e.handle(a[0], kData)
		if st != "" {
			return fail(st)
		}
		if len(path) != v.data.depth {
			return oBad
		}
		return ownGuard(func() { setData(v.data, path, f) })

	/* ----- constructors ----- */

	case "full":
		if n != 3 {
			return oBad
		}
		conf, st1 := e.parseConf(a[0])
		x, st2 := parseFloat(a[2])
		if st1 != "" || st2 != "" {
			return oBad
		}
		dims, st := e.parseInts(a[1])
		if st != "" {
			return fail(st)
		}
		return e.tensorCall(func() (T, error) { return tensor.Full(dims, x, conf) })

	case "zeros", "ones":
		if n != 2 {
			return oBad
		}
		conf, st1 := e.parseConf(a[0])
		if st1 != "" {
			return oBad
		}
		dims, st := e.parseInts(a[1])
		if st != "" {
			return fail(st)
		}
		if cmd == "zeros" {
			return e.tensorCall(func() (T, error) { return tensor.Zeros(dims, conf) })
		}
		return e.tensorCall(func() (T, error) { return tensor.Ones(dims, conf) })

	case "eye":
		if n != 2 {
			return oBad
		}
		conf, st1 := e.parseConf(a[0])
		d, st2 := parseInt(a[1])
		if st1 != "" || st2 != "" {
			return oBad
		}
		return e.tensorCall(func() (T, error) { return tensor.Eye(d, conf) })

	case "randu", "randn":
		if n != 4 {
			return oBad
		}
		conf, st1 := e.parseConf(a[0])
		p, st2 := parseFloat(a[2])
		q, st3 := parseFloat(a[3])
		if st1 != "" || st2 != "" || st3 != "" {
			return oBad
		}
		dims, st := e.parseInts(a[1])
		if st != "" {
			return fail(st)
		}
		k := rawK(prodPos(dims, elemCap))
		if cmd == "randu" {
			return e.randTensorCall(k, func() (T, error) { return tensor.RandU(dims, p, q, conf) })
		}
		return e.randTensorCall(k, func() (T, error) { return tensor.RandN(dims, p, q, conf) })

	case "tensorof":
		if n != 2 && n != 3 {
			return oBad
		}
		conf, st1 := e.parseConf(a[0])
		if st1 != "" {
			return oBad
		}
		var data any
		if n == 2 {
			if !strings.HasPrefix(a[1], "$") {
				return oBad
			}
			v, st := e.varOf(a[1], kData)
			if st != "" {
				return fail(st)
			}
			data = v.data.v
		} else {
			dv, st := parseData(a[1], a[2])
			if st != "" {
				return fail(st)
			}
			data = dv.v
		}
		return e.tensorCall(func() (T, error) {
			switch v := data.(type) {
			case float64:
				return tensor.TensorOf(v, conf)
			case []float64:
				return tensor.TensorOf(v, conf)
			case [][]float64:
				return tensor.TensorOf(v, conf)
			case [][][]float64:
				return tensor.TensorOf(v, conf)
			case [][][][]float64:
				return tensor.TensorOf(v, conf)
			}
			panic("harness: unreachable data type")
		})

	case "concat":
		if n != 2 {
			return oBad
		}
		d, st1 := parseInt(a[1])
		if st1 != "" {
			return oBad
		}
		ts, st := e.parseTensors(a[0])
		if st != "" {
			return fail(st)
		}
		return e.tensorCall(func() (T, error) { return tensor.Concat(ts, d) })

	/* ----- accessors / shape modifiers with special operands ----- */

	case "slice":
		if n != 2 {
			return oBad
		}
		t, st := e.parseRecv(a[0])
		if st != "" {
			return fail(st)
		}
		rs, st := e.parseRanges(a[1])
		if st != "" {
			return fail(st)
		}
		return e.tensorCall(func() (T, error) { return t.Slice(rs) })

	case "patch":
		if n != 3 {
			return oBad
		}
		t, st := e.parseRecv(a[0])
		if st != "" {
			return fail(st)
		}
		rs, st := e.parseRanges(a[1])
		if st != "" {
			return fail(st)
		}
		u, st := e.parseTensor(a[2])
		if st != "" {
			return fail(st)
		}
		return e.tensorCall(func() (T, error) { return t.Patch(rs, u) })

	case "transpose":
		if n != 1 {
			return oBad
		}
		t, st := e.parseRecv(a[0])
		if st != "" {
			return fail(st)
		}
		return e.tensorCall(func() (T, error) { return t.Transpose() })

	case "wrap":
		// a tensor.Tensor that is not the library's own implementation: a caller's struct embedding a library tensor
		// (every method is the embedded tensor's; as an ARGUMENT the library must reject it with an error)
		if n != 1 {
			return oBad
		}
		t, st := e.parseRecv(a[0])
		if st != "" {
			return fail(st)
		}
		if _, already := t.(foreignTensor); already {
			return fail("skip")
		}
		return e.tensorCall(func() (T, error) { return foreignTensor{t}, nil })

	/* ----- scalar / query methods ----- */

	case "nelems":
		if n != 1 {
			return oBad
		}
		t, st := e.parseRecv(a[0])
		if st != "" {
			return fail(st)
		}
		var v int
		st = e.guard(func() error { v = t.NElems(); return nil })
		if st != "ok" {
			return fail(st)
		}
		return outcome{st: "ok", payload: "n=" + strconv.Itoa(v)}

	case "at":
		if n != 2 {
			return oBad
		}
		t, st := e.parseRecv(a[0])
		if st != "" {
			return fail(st)
		}
		idx, st := e.parseInts(a[1])
		if st != "" {
			return fail(st)
		}
		var v float64
		st = e.guard(func() error {
			var err error
			v, err = t.At(idx...)
			return err
		})
		if st != "ok" {
			return fail(st)
		}
		return outcome{st: "ok", payload: "v=" + fbits(v)}

	case "equals":
		if n != 2 {
			return oBad
		}
		t, st := e.parseRecv(a[0])
		if st != "" {
			return fail(st)
		}
		u, st := e.parseTensor(a[1])
		if st != "" {
			return fail(st)
		}
		var b bool
		st = e.guard(func() error {
			var err error
			b, err = t.Equals(u)
			return err
		})
		if st != "ok" {
			return fail(st)
		}
		if b {
			return outcome{st: "ok", payload: "b=1"}
		}
		return outcome{st: "ok", payload: "b=0"}

	case "shape":
		if n != 1 {
			return oBad
		}
		t, st := e.parseRecv(a[0])
		if st != "" {
			return fail(st)
		}
		var shape []int
		st = e.guard(func() error { shape = t.Shape(); return nil })
		if st != "ok" {
			return fail(st)
		}
		return outcome{st: "ok", payload: "dims=" + joinInts(shape), bind: &val{k: kInts, ints: shape}}

	/* ----- autograd ----- */

	case "bp":
		if n != 1 {
			return oBad
		}
		t, st := e.parseTensor(a[0])
		if st != "" {
			return fail(st)
		}
		return fail(e.guard(func() error { return tensor.BackPropagate(t) }))

	case "reset":
		if n != 2 || (a[1] != "0" && a[1] != "1") {
			return oBad
		}
		t, st := e.parseRecv(a[0])
		if st != "" {
			return fail(st)
		}
		tracked := a[1] == "1"
		return fail(e.guard(func() error { t.ResetGradContext(tracked); return nil }))

	case "grad":
		if n != 1 {
			return oBad
		}
		t, st := e.parseRecv(a[0])
		if st != "" {
			return fail(st)
		}
		o := e.tensorCall(func() (T, error) { return t.Gradient(), nil })
		if o.st == "ok" {
			if isNilTensor(o.bind.t) {
				o.payload = "nil"
			} else {
				o.payload = "set"
			}
		}
		return o

	/* ----- observation ----- */

	case "obs":
		if n != 1 {
			return oBad
		}
		t, st := e.parseTensor(a[0])
		if st != "" {
			return fail(st)
		}
		if isNilTensor(t) {
			return outcome{st: "ok", payload: "nil"}
		}
		var payload string
		st = e.guard(func() error {
			var err error
			payload, err = observe(t)
			return err
		})
		if st != "ok" {
			return fail(st)
		}
		return outcome{st: "ok", payload: payload}

	/* ----- components: initializers ----- */

	case "init":
		return e.cmdInit(a)

	case "initcall":
		if n != 2 {
			return oBad
		}
		v, st := e.handle(a[0], kInit)
		if st != "" {
			return fail(st)
		}
		shape, st := e.parseInts(a[1])
		if st != "" {
			return fail(st)
		}
		call := func() (T, error) { return v.ini.Init(shape) }
		if v.iniRand {
			return e.randTensorCall(rawK(prodPos(shape, elemCap)), call)
		}
		return e.tensorCall(call)

	/* ----- components: layers and activations ----- */

	case "fc":
		return e.cmdFC(a)

	case "input":
		if n > 1 {
			return oBad
		}
		in := layers.NewInput()
		if n == 1 {
			if !strings.HasPrefix(a[0], "seed=") {
				return oBad
			}
			t, st := e.parseTensor(a[0][len("seed="):])
			if st != "" {
				return fail(st)
			}
			if _, frn := t.(foreignTensor); frn {
				return fail("skip") // not part of the protocol
			}
			in.SeedFunc = func() tensor.Tensor { return t }
		}
		return outcome{st: "ok", bind: &val{k: kLayer, layer: in}}

	case "relu", "sigmoid":
		if n != 0 {
			return oBad
		}
		var l forwarder
		st := e.guard(func() error {
			if cmd == "relu" {
				l = activations.NewRelu()
			} else {
				l = activations.NewSigmoid()
			}
			return nil
		})
		if st != "ok" {
			return fail(st)
		}
		return outcome{st: "ok", bind: &val{k: kLayer, layer: l}}

	case "leaky":
		if n != 1 {
			return oBad
		}
		var conf *activations.LeakyReluConfig
		if a[0] != "nil" {
			m, st := parseFloat(a[0])
			if st != "" {
				return oBad
			}
			conf = &activations.LeakyReluConfig{M: m}
			e.later(func() { conf.M = 123.5 })
		}
		var l *activations.LeakyRelu
		st := e.guard(func() error { l = activations.NewLeakyRelu(conf); return nil })
		if st != "ok" {
			return fail(st)
		}
		return outcome{st: "ok", bind: &val{k: kLayer, layer: l}}

	case "softmax":
		if n != 1 {
			return oBad
		}
		var conf *activations.SoftmaxConfig
		if a[0] != "nil" {
			d, st := parseInt(a[0])
			if st != "" {
				return oBad
			}
			conf = &activations.SoftmaxConfig{Dim: d}
			e.later(func() { conf.Dim = -7 })
		}
		var l *activations.Softmax
		st := e.guard(func() error {
			var err error
			l, err = activations.NewSoftmax(conf)
			return err
		})
		if st != "ok" {
			return fail(st)
		}
		return outcome{st: "ok", bind: &val{k: kLayer, layer: l}}

	case "fwd":
		if n < 1 {
			return oBad
		}
		v, st := e.handle(a[0], kLayer)
		if st != "" {
			return fail(st)
		}
		var xs []tensor.Tensor
		for _, tok := range a[1:] {
			t, st := e.parseTensor(tok)
			if st != "" {
				return fail(st)
			}
			xs = append(xs, t)
		}
		return e.tensorCall(func() (T, error) { return v.layer.Forward(xs...) })

	case "weight":
		if n != 2 {
			return oBad
		}
		k, st1 := parseInt(a[1])
		if st1 != "" {
			return oBad
		}
		v, st := e.handle(a[0], kLayer)
		if st != "" {
			return fail(st)
		}
		w, ok := v.layer.(weighted)
		if !ok {
			return oSkip
		}
		var p *tensor.Tensor
		st = e.guard(func() error { p = w.Weights()[k].Value; return nil })
		if st != "ok" {
			return fail(st)
		}
		return outcome{st: "ok", bind: &val{k: kPtr, ptr: p}}

	case "deref":
		if n != 1 {
			return oBad
		}
		v, st := e.handle(a[0], kPtr)
		if st != "" {
			return fail(st)
		}
		return e.tensorCall(func() (T, error) { return *v.ptr, nil })

	case "setptr":
		if n != 2 {
			return oBad
		}
		v, st := e.handle(a[0], kPtr)
		if st != "" {
			return fail(st)
		}
		t, st := e.parseTensor(a[1])
		if st != "" {
			return fail(st)
		}
		if _, frn := t.(foreignTensor); frn {
			return fail("skip") // not part of the protocol: a caller's own implementation stored as a layer parameter
		}
		return fail(e.guard(func() error { *v.ptr = t; return nil }))

	/* ----- components: losses, metrics, optimizers ----- */

	case "zero":
		// the zero value of a component struct (no constructor call): `var l losses.BCE`, `new(activations.Sigmoid)`, ...
		if n != 1 {
			return oBad
		}
		switch a[0] {
		case "relu":
			return outcome{st: "ok", bind: &val{k: kLayer, layer: new(activations.Relu)}}
		case "sigmoid":
			return outcome{st: "ok", bind: &val{k: kLayer, layer: new(activations.Sigmoid)}}
		case "tanh":
			return outcome{st: "ok", bind: &val{k: kLayer, layer: new(activations.Tanh)}}
		case "leaky":
			return outcome{st: "ok", bind: &val{k: kLayer, layer: new(activations.LeakyRelu)}}
		case "softmax":
			return outcome{st: "ok", bind: &val{k: kLayer, layer: new(activations.Softmax)}}
		case "mse":
			return outcome{st: "ok", bind: &val{k: kLoss, loss: new(losses.MSE)}}
		case "bce":
			return outcome{st: "ok", bind: &val{k: kLoss, loss: new(losses.BCE)}}
		case "ce":
			return outcome{st: "ok", bind: &val{k: kLoss, loss: new(losses.CE)}}
		case "accuracy":
			return outcome{st: "ok", bind: &val{k: kMetric, metric: new(metrics.Accuracy)}}
		case "sgd":
			return outcome{st: "ok", bind: &val{k: kOpt, opt: new(optimizers.SGD)}}
		}
		return oBad

	case "mse", "bce", "ce":
		if n != 0 {
			return oBad
		}
		var c computer
		st := e.guard(func() error {
			switch cmd {
			case "mse":
				c = losses.NewMSE()
			case "bce":
				c = losses.NewBCE()
			default:
				c = losses.NewCE()
			}
			return nil
		})
		if st != "ok" {
			return fail(st)
		}
		return outcome{st: "ok", bind: &val{k: kLoss, loss: c}}

	case "loss":
		if n != 3 {
			return oBad
		}
		v, st := e.handle(a[0], kLoss)
		if st != "" {
			return fail(st)
		}
		yp, st := e.parseTensor(a[1])
		if st != "" {
			return fail(st)
		}
		yt, st := e.parseTensor(a[2])
		if st != "" {
			return fail(st)
		}
		return e.tensorCall(func() (T, error) { return v.loss.Compute(yp, yt) })

	case "accuracy":
		if n != 0 {
			return oBad
		}
		var m *metrics.Accuracy
		st := e.guard(func() error { m = metrics.NewAccuracy(); return nil })
		if st != "ok" {
			return fail(st)
		}
		return outcome{st: "ok", bind: &val{k: kMetric, metric: m}}

	case "acc":
		if n != 3 {
			return oBad
		}
		v, st := e.handle(a[0], kMetric)
		if st != "" {
			return fail(st)
		}
		yp, st := e.parseTensor(a[1])
		if st != "" {
			return fail(st)
		}
		yt, st := e.parseTensor(a[2])
		if st != "" {
			return fail(st)
		}
		return fail(e.guard(func() error { return v.metric.Accumulate(yp, yt) }))

	case "result":
		if n != 1 {
			return oBad
		}
		v, st := e.handle(a[0], kMetric)
		if st != "" {
			return fail(st)
		}
		var r float64
		st = e.guard(func() error {
			var err error
			r, err = v.metric.Result()
			return err
		})
		if st != "ok" {
			return fail(st)
		}
		return outcome{st: "ok", payload: "v=" + fbits(r)}

	case "sgd":
		if n != 1 {
			return oBad
		}
		var conf *optimizers.SGDConfig
		if a[0] != "nil" {
			lr, st := parseFloat(a[0])
			if st != "" {
				return oBad
			}
			conf = &optimizers.SGDConfig{LearningRate: lr}
			e.later(func() { conf.LearningRate = 123.5 })
		}
		var o *optimizers.SGD
		st := e.guard(func() error { o = optimizers.NewSGD(conf); return nil })
		if st != "ok" {
			return fail(st)
		}
		return outcome{st: "ok", bind: &val{k: kOpt, opt: o}}

	case "upd":
		if n != 2 {
			return oBad
		}
		v, st := e.handle(a[0], kOpt)
		if st != "" {
			return fail(st)
		}
		var p *tensor.Tensor
		if a[1] != "nilptr" {
			pv, st := e.handle(a[1], kPtr)
			if st != "" {
				return fail(st)
			}
			p = pv.ptr
		}
		return fail(e.guard(func() error { return v.opt.Update(p) }))

	/* ----- randomness ----- */

	case "seedrng":
		if n != 1 {
			return oBad
		}
		s, err := strconv.ParseUint(a[0], 10, 64)
		if err != nil {
			return oBad
		}
		h := e.h
		if e.direct {
			h.rngMu.Lock()
			defer h.rngMu.Unlock()
		}
		rand.Seed(s)
		h.rngBase = s
		h.rngC = 0
		return oOK
	}

	return oBad
}

// isBindCmd reports whether cmd is a command of the `x = cmd ...` form.
func isBindCmd(cmd string) bool {
	if bindCmds[cmd] {
		return true
	}
	_, a := unaryOps[cmd]
	_, b := scalarArgOps[cmd]
	_, c := binaryOps[cmd]
	_, d := intArgOps[cmd]
	_, f := intsArgOps[cmd]
	return a || b || c || d || f
}

// foreignTensor: see the `wrap` command
type foreignTensor struct{ tensor.Tensor }

var bindCmds = map[string]bool{
	"wrap": true, "zero": true, "ints": true, "ranges": true, "tensors": true, "data": true,
	"full": true, "zeros": true, "ones": true, "eye": true, "randu": true, "randn": true,
	"tensorof": true, "concat": true, "slice": true, "patch": true, "transpose": true,
	"shape": true, "grad": true, "init": true, "initcall": true, "fc": true, "input": true,
	"relu": true, "sigmoid": true, "leaky": true, "softmax": true, "fwd": true, "weight": true,
	"deref": true, "mse": true, "bce": true, "ce": true, "loss": true, "accuracy": true, "sgd": true,
}

/* ----- init ----- */

// cmdInit: `i = init <kind> nil|<params>`.
func (e *env) cmdInit(a []string) outcome {
	if len(a) < 2 {
		return oBad
	}
	kindTok, p := a[0], a[1:]
	isNil := len(p) == 1 && p[0] == "nil"

	floats := func(want int) ([]float64, bool) {
		if len(p) != want {
			return nil, false
		}
		out := make([]float64, want)
		for i, tok := range p {
			f, st := parseFloat(tok)
			if st != "" {
				return nil, false
			}
			out[i] = f
		}
		return out, true
	}
	intsOf := func(want int) ([]int, bool) {
		if len(p) != want {
			return nil, false
		}
		out := make([]int, want)
		for i, tok := range p {
			v, st := parseInt(tok)
			if st != "" {
				return nil, false
			}
			out[i] = v
		}
		return out, true
	}

	var build func() (layers.Initializer, error)
	random := true

	switch kindTok {
	case "full":
		random = false
		var conf *initializers.FullConfig
		if !isNil {
			fs, ok := floats(1)
			if !ok {
				return oBad
			}
			conf = &initializers.FullConfig{Value: fs[0]}
			e.later(func() { conf.Value = 123.5 })
		}
		build = func() (layers.Initializer, error) { return initializers.NewFull(conf), nil }

	case "uniform":
		var conf *initializers.UniformConfig
		if !isNil {
			fs, ok := floats(2)
			if !ok {
				return oBad
			}
			conf = &initializers.UniformConfig{Lower: fs[0], Upper: fs[1]}
			e.later(func() { conf.Lower, conf.Upper = 500, 400 })
		}
		build = func() (layers.Initializer, error) { return initializers.NewUniform(conf) }

	case "normal":
		var conf *initializers.NormalConfig
		if !isNil {
			fs, ok := floats(2)
			if !ok {
				return oBad
			}
			conf = &initializers.NormalConfig{Mean: fs[0], StdDev: fs[1]}
			e.later(func() { conf.Mean, conf.StdDev = 500, -1 })
		}
		build = func() (layers.Initializer, error) { return initializers.NewNormal(conf) }

	case "heuniform":
		var conf *initializers.HeUniformConfig
		if !isNil {
			is, ok := intsOf(1)
			if !ok {
				return oBad
			}
			conf = &initializers.HeUniformConfig{FanIn: is[0]}
			e.later(func() { conf.FanIn = -3 })
		}
		build = func() (layers.Initializer, error) { return initializers.NewHeUniform(conf) }

	case "henormal":
		var conf *initializers.HeNormalConfig
		if !isNil {
			is, ok := intsOf(1)
			if !ok {
				return oBad
			}
			conf = &initializers.HeNormalConfig{FanIn: is[0]}
			e.later(func() { conf.FanIn = -3 })
		}
		build = func() (layers.Initializer, error) { return initializers.NewHeNormal(conf) }

	case "xavieruniform":
		var conf *initializers.XavierUniformConfig
		if !isNil {
			is, ok := intsOf(2)
			if !ok {
				return oBad
			}
			conf = &initializers.XavierUniformConfig{FanIn: is[0], FanOut: is[1]}
			e.later(func() { conf.FanIn, conf.FanOut = -3, -4 })
		}
		build = func() (layers.Initializer, error) { return initializers.NewXavierUniform(conf) }

	case "xaviernormal":
		var conf *initializers.XavierNormalConfig
		if !isNil {
			is, ok := intsOf(2)
			if !ok {
				return oBad
			}
			conf = &initializers.XavierNormalConfig{FanIn: is[0], FanOut: is[1]}
			e.later(func() { conf.FanIn, conf.FanOut = -3, -4 })
		}
		build = func() (layers.Initializer, error) { return initializers.NewXavierNormal(conf) }

	default:
		return oBad
	}

	var ini layers.Initializer
	st := e.guard(func() error {
		var err error
		ini, err = build()
		return err
	})
	if st != "ok" {
		return fail(st)
	}
	return outcome{st: "ok", bind: &val{k: kInit, ini: ini, iniRand: random}}
}

/* ----- fc ----- */

// cmdFC: `f = fc nil` | `f = fc <inputs> <outputs> [W=<i>|W=nil] [B=<i>|B=nil]`.
func (e *env) cmdFC(a []string) outcome {
	var conf *layers.FCConfig
	outputs := 0

	switch {
	case len(a) == 1 && a[0] == "nil":
	case len(a) >= 2 && len(a) <= 4:
		in, st1 := parseInt(a[0])
		out, st2 := parseInt(a[1])
		if st1 != "" || st2 != "" {
			return oBad
		}
		outputs = out
		conf = &layers.FCConfig{Inputs: in, Outputs: out}
		e.later(func() {
			conf.Inputs, conf.Outputs = -5, -6
			for k := range conf.Initializers {
				conf.Initializers[k] = nil
			}
		})
		seen := map[string]bool{}
		for _, tok := range a[2:] {
			var key string
			switch {
			case strings.HasPrefix(tok, "W="):
				key = "Weight"
			case strings.HasPrefix(tok, "B="):
				key = "Bias"
			default:
				return oBad
			}
			if seen[key] {
				return oBad
			}
			seen[key] = true
			if conf.Initializers == nil {
				conf.Initializers = map[string]layers.Initializer{}
			}
			if h := tok[2:]; h == "nil" {
				conf.Initializers[key] = nil // explicit nil interface entry
			} else {
				v, st := e.handle(h, kInit)
				if st != "" {
					return fail(st)
				}
				conf.Initializers[key] = v.ini
			}
		}
	default:
		return oBad
	}

	n := outputs
	if n < 0 {
		n = 0
	}
	if n > elemCap {
		n = elemCap
	}

	var fc *layers.FC
	st, payload := e.randCall(rawK(n), func() error {
		var err error
		fc, err = layers.NewFC(conf)
		return err
	})
	if st != "ok" {
		return fail(st)
	}
	return outcome{st: "ok", payload: payload, bind: &val{k: kLayer, layer: fc}}
}
