module qeepharness

go 1.22

require (
	github.com/sahandsafizadeh/qeep v0.0.0
	golang.org/x/exp v0.0.0-20231110203233-9a3e6036ecaa
	gonum.org/v1/gonum v0.15.1
)

replace github.com/sahandsafizadeh/qeep => /repo
