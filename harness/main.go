// Command harness interprets the line protocol of /verif/PROTOCOL.md against the
// real public API of github.com/sahandsafizadeh/qeep (replace => /repo).
//
// stdin: protocol lines; stdout: one result line per non-blank, non-comment input line.
package main

import (
	"bufio"
	"fmt"
	"io"
	"os"
	"strconv"
	"strings"
	"sync"
	"time"
)

// pline is one command line of the current program together with its 1-based index.
type pline struct {
	k    int
	toks []string
}

// harness holds the stream-level state.
type harness struct {
	out     *bufio.Writer
	table   map[string]*val // global handle table of the current program
	k       int             // command counter inside the current program
	dead    bool            // a command of this program timed out: the rest is `skip`
	timeout time.Duration   // per-command guard (0 = disabled)

	parLines []pline // non-nil while collecting a par block

	rngMu   sync.Mutex // serialises seed/draw/execute sequences inside par threads
	rngBase uint64
	rngC    uint64
}

func main() {
	ms := 10000
	if s := os.Getenv("HARNESS_CMD_TIMEOUT_MS"); s != "" {
		if n, err := strconv.Atoi(s); err == nil {
			ms = n
		}
	}

	out := bufio.NewWriterSize(os.Stdout, 1<<16)
	defer out.Flush()

	h := &harness{
		out:     out,
		table:   map[string]*val{},
		timeout: time.Duration(ms) * time.Millisecond,
		rngBase: 1,
	}

	rd := bufio.NewReaderSize(os.Stdin, 1<<20)
	for {
		line, err := rd.ReadString('\n')
		if len(line) > 0 {
			h.feed(strings.TrimRight(line, "\r\n"))
		}
		if err != nil {
			if err != io.EOF {
				fmt.Fprintln(os.Stderr, "harness: read error:", err)
			}
			break
		}
	}
	h.abortPar()
	out.Flush()
}

func (h *harness) emit(k int, status, payload string) {
	h.out.WriteString(formatLine(k, status, payload))
	h.out.WriteByte('\n')
}

func formatLine(k int, status, payload string) string {
	if payload == "" {
		return strconv.Itoa(k) + " " + status
	}
	return strconv.Itoa(k) + " " + status + " " + payload
}

// feed handles one raw input line.
func (h *harness) feed(line string) {
	if strings.HasPrefix(line, "#") {
		return
	}
	toks := strings.Fields(line)
	if len(toks) == 0 {
		return
	}

	if h.parLines != nil {
		switch toks[0] {
		case "prog", "end":
			// malformed block: never closed. Report the collected lines as bad and go on.
			h.abortPar()
		default:
			h.k++
			h.parLines = append(h.parLines, pline{h.k, toks})
			if toks[0] == "endpar" {
				lines := h.parLines
				h.parLines = nil
				h.runPar(lines)
			}
			return
		}
	}

	switch toks[0] {
	case "prog":
		h.table = map[string]*val{}
		h.k = 0
		h.dead = false
		if len(toks) > 1 {
			h.out.WriteString("prog " + toks[1] + "\n")
		} else {
			h.out.WriteString("prog\n")
		}
	case "end":
		h.out.WriteString("end\n")
		h.out.Flush()
	case "par":
		h.k++
		h.parLines = []pline{{h.k, toks}}
	default:
		h.k++
		if h.dead {
			h.emit(h.k, "skip", "")
			return
		}
		e := &env{h: h, global: h.table}
		st, payload := e.execLine(toks)
		h.emit(h.k, st, payload)
	}
}

// abortPar reports an unterminated par block (all its lines are `bad`).
func (h *harness) abortPar() {
	if h.parLines == nil {
		return
	}
	for _, l := range h.parLines {
		h.emit(l.k, "bad", "")
	}
	h.parLines = nil
}

// runPar executes a complete par ... endpar block.
func (h *harness) runPar(lines []pline) {
	outs := make([]string, len(lines))
	set := func(i int, st string) { outs[i] = formatLine(lines[i].k, st, "") }

	if h.dead {
		for i := range lines {
			set(i, "skip")
		}
		h.flushLines(outs)
		return
	}

	type threadSpec struct{ idx []int }
	var threads []*threadSpec
	var cur *threadSpec
	wellFormed := true

	for i, l := range lines {
		cmd := l.toks[0]
		switch {
		case i == 0: // par
			set(i, "ok")
		case cmd == "thread" && cur == nil && len(l.toks) == 1:
			cur = &threadSpec{}
			threads = append(threads, cur)
			set(i, "ok")
		case cmd == "endthread" && cur != nil && len(l.toks) == 1:
			cur = nil
			set(i, "ok")
		case cmd == "endpar":
			if cur != nil || len(l.toks) != 1 {
				wellFormed = false
				set(i, "bad")
			} else {
				set(i, "ok")
			}
		case cmd == "par" || cmd == "thread" || cmd == "endthread":
			wellFormed = false
			set(i, "bad")
		case cur == nil: // command outside of any thread
			set(i, "bad")
		default:
			cur.idx = append(cur.idx, i)
		}
	}

	if !wellFormed {
		for i := range lines { // a malformed block is not executed at all
			set(i, "bad")
		}
		h.flushLines(outs)
		return
	}

	envs := make([]*env, len(threads))
	var wg sync.WaitGroup
	start := make(chan struct{})
	for ti, th := range threads {
		e := &env{h: h, global: h.table, local: map[string]*val{}, direct: true}
		envs[ti] = e
		wg.Add(1)
		go func(th *threadSpec, e *env) {
			defer wg.Done()
			<-start
			for _, i := range th.idx {
				st, payload := e.execLine(lines[i].toks)
				outs[i] = formatLine(lines[i].k, st, payload)
			}
		}(th, e)
	}
	close(start)
	wg.Wait()

	// merge thread-local tables in thread order (later threads overwrite)
	for _, e := range envs {
		for name, v := range e.local {
			if v == nil || v.k == kNone {
				delete(h.table, name)
			} else {
				h.table[name] = v
			}
		}
	}
	h.flushLines(outs)
}

func (h *harness) flushLines(outs []string) {
	for _, s := range outs {
		h.out.WriteString(s)
		h.out.WriteByte('\n')
	}
}

/* ----- execution environment ----- */

// env is what a command sees: the global table (read-only while in a par thread), an optional
// thread-local overlay and the way library calls are guarded.
type env struct {
	h      *harness
	global map[string]*val
	local  map[string]*val // nil outside par threads
	direct bool            // run library calls in the calling goroutine (par threads)
	after  []func()        // scribbles over the config structs passed by pointer to the command just executed
}

// later registers a mutation of a caller-owned config struct to be performed straight after the current command:
// every config the harness passes by pointer is overwritten with garbage once the call has returned, so a library
// that keeps the caller's pointer (instead of copying the values) behaves differently afterwards.
func (e *env) later(f func()) { e.after = append(e.after, f) }

func (e *env) lookup(name string) *val {
	if e.local != nil {
		if v, ok := e.local[name]; ok {
			if v == nil || v.k == kNone {
				return nil
			}
			return v
		}
	}
	if v, ok := e.global[name]; ok && v != nil && v.k != kNone {
		return v
	}
	return nil
}

func (e *env) bind(name string, v *val) {
	if e.local != nil {
		e.local[name] = v
		return
	}
	e.global[name] = v
}

func (e *env) unbind(name string) {
	if e.local != nil {
		e.local[name] = &val{k: kNone} // tombstone, applied at merge
		return
	}
	delete(e.global, name)
}

// guard runs f (library calls only) with panic recovery and, outside par threads, under the
// per-command wall-clock budget. Returns ok | err | panic | timeout.
func (e *env) guard(f func() error) string {
	run := func() (st string) {
		defer func() {
			if r := recover(); r != nil {
				st = "panic"
			}
		}()
		if err := f(); err != nil {
			return "err"
		}
		return "ok"
	}

	if e.direct || e.h.timeout <= 0 {
		return run()
	}

	ch := make(chan string, 1)
	go func() { ch <- run() }()
	timer := time.NewTimer(e.h.timeout)
	defer timer.Stop()
	select {
	case st := <-ch:
		return st
	case <-timer.C:
		e.h.dead = true // the stuck goroutine is left behind
		return "timeout"
	}
}
