import Mathlib.Algebra.BigOperators.Group.List.Basic
import Mathlib.Tactic.Abel

/-! Probe B1: one push-pass along a topological order of the processed nodes solves the adjoint equations. -/

variable {G : Type} [AddCommMonoid G]

/-- edges of node m: (target, pullback) -/
abbrev Edges (G : Type) := Nat → List (Nat × (G → G))

/-- contribution pushed into `n` by node `m` when m's (final) gradient is `gm` -/
def pushInto (E : Edges G) (m : Nat) (gm : G) (n : Nat) : G :=
  ((E m).map (fun e => if e.1 = n then e.2 gm else 0)).sum

/-- process one node: add its pushes to every target -/
def push (E : Edges G) (m : Nat) (cur : Nat → G) : Nat → G :=
  fun n => cur n + pushInto E m (cur m) n

def pass (E : Edges G) : List Nat → (Nat → G) → (Nat → G)
  | [], cur => cur
  | m :: rest, cur => pass E rest (push E m cur)

def hasEdge (E : Edges G) (a b : Nat) : Prop := ∃ e ∈ E a, e.1 = b

/-- topological: nobody processed later has an edge into an earlier one; no self loops -/
inductive Topo (E : Edges G) : List Nat → Prop
  | nil : Topo E []
  | cons {m rest} : ¬ hasEdge E m m → (∀ b ∈ rest, ¬ hasEdge E b m) → Topo E rest → Topo E (m :: rest)

theorem pushInto_eq_zero {E : Edges G} {m n : Nat} (g : G) (h : ¬ hasEdge E m n) : pushInto E m g n = 0 := by
  unfold pushInto
  apply List.sum_eq_zero
  intro x hx
  simp only [List.mem_map] at hx
  obtain ⟨e, he, rfl⟩ := hx
  have : e.1 ≠ n := fun h' => h ⟨e, he, h'⟩
  simp [this]

theorem pass_solves (E : Edges G) : ∀ (order : List Nat) (cur : Nat → G), Topo E order →
    ∀ n, pass E order cur n = cur n + (order.map (fun m => pushInto E m (pass E order cur m) n)).sum
  | [], cur, _ => by intro n; simp [pass]
  | m :: rest, cur, .cons hself hback htopo => by
    intro n
    have ih := pass_solves E rest (push E m cur) htopo
    -- value at m is final: nothing later pushes into m, and m does not push into itself
    have hm : pass E (m :: rest) cur m = cur m := by
      simp only [pass]
      rw [ih m]
      have h0 : (rest.map (fun m' => pushInto E m' (pass E rest (push E m cur) m') m)).sum = 0 := by
        apply List.sum_eq_zero
        intro x hx
        simp only [List.mem_map] at hx
        obtain ⟨b, hb, rfl⟩ := hx
        exact pushInto_eq_zero _ (hback b hb)
      rw [h0]
      simp [push, pushInto_eq_zero _ hself]
    simp only [List.map_cons, List.sum_cons]
    rw [hm]
    simp only [pass]
    rw [ih n]
    simp only [push]
    abel

#print axioms pass_solves
