import Mathlib.Analysis.SpecialFunctions.Trigonometric.DerivHyp
import Mathlib.Analysis.SpecialFunctions.Pow.Deriv
import Mathlib.Analysis.Calculus.Deriv.Add
import Mathlib.Analysis.Calculus.Deriv.Mul

open Finset

/-- Probe C: VJP of an element-wise map, as the partial derivative of the g-weighted sum. -/
theorem hasDerivAt_weighted_map {n : ℕ} (f f' : ℝ → ℝ) (x g : Fin n → ℝ) (i : Fin n)
    (hf : HasDerivAt f (f' (x i)) (x i)) :
    HasDerivAt (fun t => ∑ k, g k * f (Function.update x i t k)) (g i * f' (x i)) (x i) := by
  have h : ∀ k ∈ (univ : Finset (Fin n)),
      HasDerivAt (fun t => g k * f (Function.update x i t k)) (if k = i then g i * f' (x i) else 0) (x i) := by
    intro k _
    by_cases hk : k = i
    · subst hk
      simp only [Function.update_self, if_true]
      exact hf.const_mul (g k)
    · simp only [Function.update_of_ne hk, hk, if_false]
      exact hasDerivAt_const _ _
  have := HasDerivAt.fun_sum h
  simpa using this

/-- the Tanh rule of gradients.go: gy * cosh(x)^(-2) -/
theorem tanh_rule (x : ℝ) : HasDerivAt Real.tanh ((Real.cosh x) ^ (-2 : ℤ)) x := by
  have h : Real.tanh = fun y => Real.sinh y / Real.cosh y := funext Real.tanh_eq_sinh_div_cosh
  rw [h]
  have hc : Real.cosh x ≠ 0 := (Real.cosh_pos x).ne'
  have hd := (Real.hasDerivAt_sinh x).div (Real.hasDerivAt_cosh x) hc
  refine hd.congr_deriv ?_
  have hsq := Real.cosh_sq x
  rw [zpow_neg, zpow_ofNat]
  field_simp
  nlinarith [hsq]

#print axioms hasDerivAt_weighted_map
#print axioms tanh_rule
