/-! Probe 0: little-endian odometer step mirroring
    `for i := n-1; i >= 0; { if state[i] < dims[i]-1 {state[i]++; break} else {state[i]=0; i--} }` -/
def incr : List Nat → List Nat → List Nat
  | d :: ds, s :: ss => if s + 1 < d then (s + 1) :: ss else 0 :: incr ds ss
  | _, _ => []

def val : List Nat → List Nat → Nat
  | d :: ds, s :: ss => s + d * val ds ss
  | _, _ => 0

def prod : List Nat → Nat
  | [] => 1
  | d :: ds => d * prod ds

inductive Valid : List Nat → List Nat → Prop
  | nil : Valid [] []
  | cons {d s ds ss} : s < d → Valid ds ss → Valid (d :: ds) (s :: ss)

theorem val_lt : ∀ {ds ss}, Valid ds ss → val ds ss < prod ds
  | _, _, .nil => by simp [val, prod]
  | _, _, .cons (d := d) (s := s) (ds := ds) (ss := ss) h hv => by
    have ih := val_lt hv
    simp only [val, prod]
    calc s + d * val ds ss < d + d * val ds ss := by omega
      _ = d * (val ds ss + 1) := by rw [Nat.mul_add]; omega
      _ ≤ d * prod ds := Nat.mul_le_mul_left d ih

theorem val_incr : ∀ {ds ss}, Valid ds ss → val ds (incr ds ss) = (val ds ss + 1) % prod ds
  | _, _, .nil => by simp [incr, val, prod]
  | _, _, .cons (d := d) (s := s) (ds := ds) (ss := ss) h hv => by
    have ih := val_incr hv
    have hlt := val_lt hv
    simp only [incr]
    split
    · simp only [val, prod]
      have : s + 1 + d * val ds ss < d * prod ds := by
        calc s + 1 + d * val ds ss < d + d * val ds ss := by omega
          _ = d * (val ds ss + 1) := by rw [Nat.mul_add]; omega
          _ ≤ d * prod ds := Nat.mul_le_mul_left d hlt
      rw [Nat.mod_eq_of_lt (by omega)]; omega
    · rename_i h1
      have hs : s + 1 = d := by omega
      simp only [val, prod, ih]
      subst hs
      have : s + (s + 1) * val ds ss + 1 = (s + 1) * (val ds ss + 1) := by
        rw [Nat.mul_add]; omega
      rw [this, Nat.mul_mod_mul_left]; simp

#print axioms val_incr
