/-! Probe A: broadcastElemGenerator's carry loop, little-endian, lock-step over (src dims, state) and (shape, repeat).

Go:
  i := len(t.dims)-1; j := len(shape)-1
  for j >= 0 {
    if i >= 0 && state[i] < t.dims[i]-1 { state[i]++; break }
    else if i >= 0 { state[i] = 0; repeat[j]++
                     if t.dims[i] == shape[j] || repeat[j] == shape[j] { repeat[j] = 0; i--; j-- } else { break } }
    else { repeat[j]++; if repeat[j] == shape[j] { repeat[j] = 0; j-- } else { break } }
  }
-/

/-- odometer on the target shape (Spec side) -/
def incr : List Nat → List Nat → List Nat
  | d :: ds, s :: ss => if s + 1 < d then (s + 1) :: ss else 0 :: incr ds ss
  | _, _ => []

/-- the Go loop; lists are reversed (last dimension first). Returns (state, repeat). -/
def stepB : (sd st sh rp : List Nat) → List Nat × List Nat
  | d :: sd, s :: st, h :: sh, r :: rp =>
      if s + 1 < d then ((s + 1) :: st, r :: rp)
      else if d = h ∨ r + 1 = h then
        let (st', rp') := stepB sd st sh rp
        (0 :: st', 0 :: rp')
      else (0 :: st, (r + 1) :: rp)
  | [], [], h :: sh, r :: rp =>
      if r + 1 = h then
        let (_, rp') := stepB [] [] sh rp
        ([], 0 :: rp')
      else ([], (r + 1) :: rp)
  | _, st, _, rp => (st, rp)

/-- what (state, repeat) should be when the target multi-index is `u` -/
def enc : (sd sh u : List Nat) → List Nat × List Nat
  | d :: sd, h :: sh, x :: u =>
      let (st, rp) := enc sd sh u
      if d = h then (x :: st, 0 :: rp) else (0 :: st, x :: rp)
  | [], _ :: sh, x :: u =>
      let (_, rp) := enc [] sh u
      ([], x :: rp)
  | _, _, _ => ([], [])

/-- admissible (src dims, shape, index): validator's rule `d = h ∨ d = 1`, positive sizes, index in range -/
inductive Adm : (sd sh u : List Nat) → Prop
  | nil : Adm [] [] []
  | lead {h x sh u} : x < h → Adm [] sh u → Adm [] (h :: sh) (x :: u)
  | both {d h x sd sh u} : (d = h ∨ d = 1) → 0 < d → x < h → Adm sd sh u → Adm (d :: sd) (h :: sh) (x :: u)

theorem stepB_enc : ∀ {sd sh u}, Adm sd sh u →
    stepB sd (enc sd sh u).1 sh (enc sd sh u).2 = enc sd sh (incr sh u)
  | _, _, _, .nil => by simp [enc, incr, stepB]
  | _, _, _, .lead (h := h) (x := x) (sh := sh) (u := u) hx ha => by
    have ih := stepB_enc ha
    have e1 : (enc [] sh u).1 = [] := by
      cases ha <;> simp [enc]
    simp only [enc, incr, stepB]
    by_cases hc : x + 1 < h
    · have : ¬ (x + 1 = h) := by omega
      simp [hc, this, enc]
    · have : x + 1 = h := by omega
      simp only [hc, this, if_true, if_false]
      rw [e1] at ih
      rw [ih]
      simp [enc]
  | _, _, _, .both (d := d) (h := h) (x := x) (sd := sd) (sh := sh) (u := u) hd hpos hx ha => by
    have ih := stepB_enc ha
    simp only [enc, incr]
    by_cases hdh : d = h
    · subst hdh
      simp only [if_true, stepB]
      by_cases hc : x + 1 < d
      · simp [hc, enc]
      · simp only [hc, if_false, true_or, if_true]
        rw [ih]; simp [enc]
    · have hd1 : d = 1 := by
        rcases hd with h' | h'
        · exact absurd h' hdh
        · exact h'
      subst hd1
      simp only [hdh, if_false, stepB]
      have h0 : ¬ (0 + 1 < 1) := by omega
      simp only [h0, if_false, false_or]
      by_cases hc : x + 1 < h
      · have : ¬ (x + 1 = h) := by omega
        simp [hc, this, enc, hdh]
      · have : x + 1 = h := by omega
        simp only [hc, this, if_true, if_false]
        rw [ih]; simp [enc, hdh]

#print axioms stepB_enc
