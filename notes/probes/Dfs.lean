/-! Probe B2: reverse post-order DFS over a DAG whose edges point to smaller ids is topological. Core only. -/

/-- tracked targets of a node (already filtered), all smaller than the node -/
abbrev Succ := Nat → List Nat

def visit (S : Succ) : (fuel : Nat) → Nat → List Nat → List Nat
  | 0, _, done => done
  | f + 1, n, done =>
      if n ∈ done then done
      else n :: (S n).foldl (fun d c => visit S f c d) done

def Dag (S : Succ) : Prop := ∀ n c, c ∈ S n → c < n

/-- elements of the finished list are closed under successors -/
def Closed (S : Succ) (done : List Nat) : Prop := ∀ a ∈ done, ∀ c ∈ S a, c ∈ done

/-- newest first; no edge from an older (later in list) element to a newer one -/
inductive Topo (S : Succ) : List Nat → Prop
  | nil : Topo S []
  | cons {m rest} : (∀ b ∈ rest, m ∉ S b) → Topo S rest → Topo S (m :: rest)

structure DInv (S : Succ) (done : List Nat) : Prop where
  closed : Closed S done
  topo : Topo S done

/-- what a visit (or a fold of visits) may do to the list: keep old members, add only ids ≤ bound -/
structure Ext (bound : Nat) (d d' : List Nat) : Prop where
  mono : ∀ a ∈ d, a ∈ d'
  small : ∀ a ∈ d', a ∈ d ∨ a ≤ bound

theorem Ext.refl (b : Nat) (d : List Nat) : Ext b d d := ⟨fun _ h => h, fun _ h => Or.inl h⟩

theorem Ext.trans {b : Nat} {d1 d2 d3 : List Nat} (h12 : Ext b d1 d2) (h23 : Ext b d2 d3) : Ext b d1 d3 :=
  ⟨fun a h => h23.mono a (h12.mono a h), fun a h => by
    rcases h23.small a h with h | h
    · exact h12.small a h
    · exact Or.inr h⟩

theorem Ext.weaken {b b' : Nat} {d d' : List Nat} (h : Ext b d d') (hb : b ≤ b') : Ext b' d d' :=
  ⟨h.mono, fun a ha => by rcases h.small a ha with h | h; exact Or.inl h; exact Or.inr (Nat.le_trans h hb)⟩

theorem visit_spec (S : Succ) (hdag : Dag S) :
    ∀ (f n : Nat) (done : List Nat), n < f → DInv S done →
      DInv S (visit S f n done) ∧ Ext n done (visit S f n done) ∧ n ∈ visit S f n done
  | 0, n, done, hf, _ => by omega
  | f + 1, n, done, hf, hinv => by
    unfold visit
    by_cases hmem : n ∈ done
    · rw [if_pos hmem]
      exact ⟨hinv, Ext.refl _ _, hmem⟩
    · rw [if_neg hmem]
      -- fold over the children, generalised over the list of children and the accumulator
      have fold : ∀ (cs : List Nat) (d : List Nat), (∀ c ∈ cs, c < n) → DInv S d →
          DInv S (cs.foldl (fun d c => visit S f c d) d) ∧
          Ext (n - 1) d (cs.foldl (fun d c => visit S f c d) d) ∧
          (∀ c ∈ cs, c ∈ cs.foldl (fun d c => visit S f c d) d) := by
        intro cs
        induction cs with
        | nil => intro d _ hd; exact ⟨hd, Ext.refl _ _, by simp⟩
        | cons c cs ih =>
          intro d hlt hd
          have hc : c < n := hlt c (by simp)
          obtain ⟨h1, h2, h3⟩ := visit_spec S hdag f c d (by omega) hd
          obtain ⟨g1, g2, g3⟩ := ih (visit S f c d) (fun x hx => hlt x (by simp [hx])) h1
          refine ⟨by simpa [List.foldl] using g1, ?_, ?_⟩
          · simpa [List.foldl] using (h2.weaken (by omega)).trans g2
          · intro x hx
            simp only [List.foldl]
            rcases List.mem_cons.mp hx with rfl | hx
            · exact g2.mono _ h3
            · exact g3 x hx
      obtain ⟨k1, k2, k3⟩ := fold (S n) done (fun c hc => hdag n c hc) hinv
      have hn_notin : n ∉ (S n).foldl (fun d c => visit S f c d) done := by
        intro hin
        rcases k2.small n hin with h | h
        · exact hmem h
        · have : 0 < n := by
            rcases Nat.eq_zero_or_pos n with h0 | h0
            · subst h0
              -- S 0 must be empty in a Dag, so the fold is `done`
              have : S 0 = [] := by
                cases hs : S 0 with
                | nil => rfl
                | cons c cs => exact absurd (hdag 0 c (by simp [hs])) (by omega)
              rw [this, List.foldl_nil] at hin; exact absurd hin hmem
            · exact h0
          omega
      refine ⟨⟨?_, ?_⟩, ?_, by simp⟩
      · -- closed
        intro a ha c hc
        rcases List.mem_cons.mp ha with rfl | ha
        · exact List.mem_cons_of_mem _ (k3 c hc)
        · exact List.mem_cons_of_mem _ (k1.closed a ha c hc)
      · -- topo: an older element b with an edge to n would force n into the folded list by closedness
        refine Topo.cons (fun b hb hnb => hn_notin (k1.closed b hb n hnb)) k1.topo
      · exact ⟨fun a ha => List.mem_cons_of_mem _ (k2.mono a ha), fun a ha => by
          rcases List.mem_cons.mp ha with rfl | ha
          · exact Or.inr (Nat.le_refl _)
          · rcases k2.small a ha with h | h
            · exact Or.inl h
            · exact Or.inr (by omega)⟩

#print axioms visit_spec
