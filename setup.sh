#!/bin/sh
# Build the framework from files on disk only (offline).
set -e
cd "$(dirname "$0")"
export GOFLAGS=-mod=mod GOPROXY=off GOSUMDB=off GOTOOLCHAIN=local
mkdir -p .build evidence replays work
(cd lean && lake build 2>&1 | tail -3)
(cd harness && cp /repo/go.sum go.sum && go build -o ../.build/harness . )
(cd extract && go build -o ../.build/extract . )
(cd xlate && go build -o ../.build/xlate . )
echo setup-ok
