package main

// Validators (tensor/internal/validator/*.go): if-chains and index loops over int slices → Bool-valued Lean functions
// (`true` = the validator returns nil). Accepted subset: `if c { err = …; return }`, `if c { continue }`, if/else whose
// branches all end in such returns, `for i, v := range xs`, `for i := 0; i < n; i++`, the count-down loop
// `for i > 0 { i--; j--; … }`, `v := e`, `err = ValidateX(…)` followed by the error check, `return nil`.
// Indexing `a[i]` becomes `a.getD i 0` (index safety — Go would panic — is not part of these equations; it is covered
// by the bounded-exhaustive correspondence block of C09).

import (
	"fmt"
	"go/ast"
	"go/token"
	"strings"
)

type vctx struct {
	fset  *token.FileSet
	kind  map[string]string // I int, N loop index (Nat), L []int, R []Range, r Range, LL [][]int
	funcs map[string]bool   // other validators callable
}

func (c *vctx) pos(n ast.Node) string { return c.fset.Position(n.Pos()).String() }

func (c *vctx) intE(e ast.Expr) string {
	switch v := e.(type) {
	case *ast.BasicLit:
		if v.Kind == token.INT {
			return "(" + v.Value + " : Int)"
		}
	case *ast.Ident:
		switch c.kind[v.Name] {
		case "I":
			return v.Name + "'"
		case "N":
			return "(" + v.Name + "' : Int)"
		}
	case *ast.ParenExpr:
		return c.intE(v.X)
	case *ast.CallExpr:
		if id, ok := v.Fun.(*ast.Ident); ok && len(v.Args) == 1 {
			switch id.Name {
			case "len":
				return "(" + c.listE(v.Args[0]) + ".length : Int)"
			case "dimsToNumElems":
				return "(" + c.listE(v.Args[0]) + ".foldl (· * ·) 1)"
			}
		}
	case *ast.SelectorExpr:
		if id, ok := v.X.(*ast.Ident); ok && c.kind[id.Name] == "r" {
			switch v.Sel.Name {
			case "From":
				return id.Name + "'.1"
			case "To":
				return id.Name + "'.2"
			}
		}
	case *ast.IndexExpr:
		// a[i] with a : []int
		return "(" + c.listE(v.X) + ".getD " + c.natE(v.Index) + " 0)"
	case *ast.BinaryExpr:
		o := map[token.Token]string{token.ADD: "+", token.SUB: "-", token.MUL: "*"}[v.Op]
		if o != "" {
			return "(" + c.intE(v.X) + " " + o + " " + c.intE(v.Y) + ")"
		}
	}
	fail("%s: unsupported int expression in a validator", c.pos(e))
	return ""
}

// an index: a loop variable stays a Nat, anything else is an Int expression truncated at 0
func (c *vctx) natE(e ast.Expr) string {
	if id, ok := e.(*ast.Ident); ok && c.kind[id.Name] == "N" {
		return id.Name + "'"
	}
	return "(" + c.intE(e) + ").toNat"
}

func (c *vctx) listE(e ast.Expr) string {
	switch v := e.(type) {
	case *ast.Ident:
		switch c.kind[v.Name] {
		case "L", "R", "LL":
			return v.Name + "'"
		}
	case *ast.IndexExpr:
		// tsDims[0] : []int
		if id, ok := v.X.(*ast.Ident); ok && c.kind[id.Name] == "LL" {
			return "(" + id.Name + "'.getD " + c.natE(v.Index) + " [])"
		}
	case *ast.CompositeLit:
		// []int{n, n}
		var parts []string
		for _, el := range v.Elts {
			parts = append(parts, c.intE(el))
		}
		return "[" + strings.Join(parts, ", ") + "]"
	}
	fail("%s: unsupported slice expression in a validator", c.pos(e))
	return ""
}

func (c *vctx) boolE(e ast.Expr) string {
	switch v := e.(type) {
	case *ast.ParenExpr:
		return c.boolE(v.X)
	case *ast.UnaryExpr:
		if v.Op == token.NOT {
			return "(!" + c.boolE(v.X) + ")"
		}
	case *ast.BinaryExpr:
		switch v.Op {
		case token.LAND:
			return "(" + c.boolE(v.X) + " && " + c.boolE(v.Y) + ")"
		case token.LOR:
			return "(" + c.boolE(v.X) + " || " + c.boolE(v.Y) + ")"
		case token.EQL:
			return "(" + c.intE(v.X) + " == " + c.intE(v.Y) + ")"
		case token.NEQ:
			return "(" + c.intE(v.X) + " != " + c.intE(v.Y) + ")"
		case token.LSS:
			return "(decide (" + c.intE(v.X) + " < " + c.intE(v.Y) + "))"
		case token.LEQ:
			return "(decide (" + c.intE(v.X) + " ≤ " + c.intE(v.Y) + "))"
		case token.GTR:
			return "(decide (" + c.intE(v.X) + " > " + c.intE(v.Y) + "))"
		case token.GEQ:
			return "(decide (" + c.intE(v.X) + " ≥ " + c.intE(v.Y) + "))"
		}
	}
	fail("%s: unsupported condition in a validator", c.pos(e))
	return ""
}

func isErrAssign(s ast.Stmt) (*ast.CallExpr, bool) {
	as, ok := s.(*ast.AssignStmt)
	if !ok || len(as.Lhs) != 1 || len(as.Rhs) != 1 {
		return nil, false
	}
	id, ok := as.Lhs[0].(*ast.Ident)
	if !ok || id.Name != "err" {
		return nil, false
	}
	call, _ := as.Rhs[0].(*ast.CallExpr)
	return call, true
}

// stmts translates a statement list; `inLoop` says whether falling off the end / `continue` means "this iteration passes"
func (c *vctx) stmts(list []ast.Stmt, inLoop bool) string {
	if len(list) == 0 {
		if inLoop {
			return "true"
		}
		fail("validator body falls off the end")
	}
	s, rest := list[0], list[1:]
	switch v := s.(type) {
	case *ast.ReturnStmt:
		if len(v.Results) == 1 && isNil(v.Results[0]) {
			return "true"
		}
		fail("%s: unsupported return in a validator", c.pos(s))
	case *ast.BranchStmt:
		if v.Tok == token.CONTINUE && inLoop {
			return "true"
		}
		fail("%s: unsupported branch statement", c.pos(s))
	case *ast.AssignStmt:
		if call, ok := isErrAssign(s); ok {
			// err = fmt.Errorf(…); return      → false
			// err = ValidateX(args); if err != nil { …; return }   → if !(X args) then false else rest
			if call != nil {
				if sel, ok := call.Fun.(*ast.SelectorExpr); ok && sel.Sel.Name == "Errorf" {
					if len(rest) == 1 {
						if r, ok := rest[0].(*ast.ReturnStmt); ok && len(r.Results) == 0 {
							return "false"
						}
					}
					fail("%s: error assigned but not returned at once", c.pos(s))
				}
				if id, ok := call.Fun.(*ast.Ident); ok && c.funcs[id.Name] {
					if len(rest) == 0 || !isErrCheck(rest[0]) {
						fail("%s: result of %s not checked", c.pos(s), id.Name)
					}
					var args []string
					for _, a := range call.Args {
						args = append(args, c.anyArg(a))
					}
					return "(if !(" + id.Name + " " + strings.Join(args, " ") + ") then false else " + c.stmts(rest[1:], inLoop) + ")"
				}
			}
			fail("%s: unsupported assignment to err", c.pos(s))
		}
		if len(v.Lhs) == 1 && len(v.Rhs) == 1 && v.Tok == token.DEFINE {
			id, ok := v.Lhs[0].(*ast.Ident)
			if !ok {
				fail("%s: unsupported definition", c.pos(s))
			}
			// int or slice?
			if ie, ok := v.Rhs[0].(*ast.IndexExpr); ok {
				if x, ok := ie.X.(*ast.Ident); ok && c.kind[x.Name] == "LL" {
					t := c.listE(v.Rhs[0])
					c.kind[id.Name] = "L"
					return "(let " + id.Name + "' := " + t + "; " + c.stmts(rest, inLoop) + ")"
				}
			}
			t := c.intE(v.Rhs[0])
			c.kind[id.Name] = "I"
			return "(let " + id.Name + "' : Int := " + t + "; " + c.stmts(rest, inLoop) + ")"
		}
		fail("%s: unsupported assignment in a validator", c.pos(s))
	case *ast.IfStmt:
		if v.Init != nil {
			fail("%s: if with init", c.pos(s))
		}
		cond := c.boolE(v.Cond)
		thenB := c.stmts(v.Body.List, inLoop)
		if !terminates(v.Body.List) {
			fail("%s: if body must end in return / continue", c.pos(s))
		}
		if v.Else != nil {
			eb, ok := v.Else.(*ast.BlockStmt)
			if !ok || !terminates(eb.List) || len(rest) != 0 {
				fail("%s: unsupported else", c.pos(s))
			}
			return "(if " + cond + " then " + thenB + " else " + c.stmts(eb.List, inLoop) + ")"
		}
		return "(if " + cond + " then " + thenB + " else " + c.stmts(rest, inLoop) + ")"
	case *ast.RangeStmt:
		if v.Tok != token.DEFINE {
			fail("%s: unsupported range loop", c.pos(s))
		}
		xs := c.listE(v.X)
		xk := ""
		if id, ok := v.X.(*ast.Ident); ok {
			xk = c.kind[id.Name]
		}
		key, _ := v.Key.(*ast.Ident)
		iname := "i_"
		if key != nil && key.Name != "_" {
			iname = key.Name
		}
		c.kind[iname] = "N"
		lets := ""
		if val, ok := v.Value.(*ast.Ident); ok && val.Name != "_" {
			switch xk {
			case "L":
				c.kind[val.Name] = "I"
				lets = "let " + val.Name + "' : Int := " + xs + ".getD " + iname + "' 0; "
			case "R":
				c.kind[val.Name] = "r"
				lets = "let " + val.Name + "' : Int × Int := " + xs + ".getD " + iname + "' (0, 0); "
			case "LL":
				c.kind[val.Name] = "L"
				lets = "let " + val.Name + "' : List Int := " + xs + ".getD " + iname + "' []; "
			default:
				fail("%s: range over an unsupported slice", c.pos(s))
			}
		}
		body := c.stmts(v.Body.List, true)
		loop := "((List.range " + xs + ".length).all (fun " + iname + "' => " + lets + body + "))"
		return "(if !" + loop + " then false else " + c.stmts(rest, inLoop) + ")"
	case *ast.ForStmt:
		// for i := 0; i < N; i++ { … }
		if v.Init != nil && v.Post != nil {
			as, ok1 := v.Init.(*ast.AssignStmt)
			cond, ok2 := v.Cond.(*ast.BinaryExpr)
			inc, ok3 := v.Post.(*ast.IncDecStmt)
			if ok1 && ok2 && ok3 && len(as.Lhs) == 1 && cond.Op == token.LSS && inc.Tok == token.INC {
				id := as.Lhs[0].(*ast.Ident)
				if bl, ok := as.Rhs[0].(*ast.BasicLit); ok && bl.Value == "0" {
					bound := c.intE(cond.Y)
					c.kind[id.Name] = "N"
					body := c.stmts(v.Body.List, true)
					loop := "((List.range (" + bound + ").toNat).all (fun " + id.Name + "' => " + body + "))"
					return "(if !" + loop + " then false else " + c.stmts(rest, inLoop) + ")"
				}
			}
		}
		// for i > 0 { i--; j--; … }: iteration k (from 0) sees i = i0-1-k, j = j0-1-k
		if v.Init == nil && v.Post == nil {
			cond, ok := v.Cond.(*ast.BinaryExpr)
			if ok && cond.Op == token.GTR {
				iv, ok1 := cond.X.(*ast.Ident)
				z, ok2 := cond.Y.(*ast.BasicLit)
				if ok1 && ok2 && z.Value == "0" && c.kind[iv.Name] == "I" {
					var decs []string
					body := v.Body.List
					for len(body) > 0 {
						d, ok := body[0].(*ast.IncDecStmt)
						if !ok || d.Tok != token.DEC {
							break
						}
						decs = append(decs, d.X.(*ast.Ident).Name)
						body = body[1:]
					}
					if len(decs) == 0 || decs[0] != iv.Name {
						fail("%s: unsupported count-down loop", c.pos(s))
					}
					lets := ""
					for _, d := range decs {
						if c.kind[d] != "I" {
							fail("%s: count-down of a non-int", c.pos(s))
						}
						lets += "let " + d + "₀ : Int := " + d + "'; "
					}
					inner := ""
					for _, d := range decs {
						inner += "let " + d + "' : Int := " + d + "₀ - 1 - (k' : Int); "
					}
					b := c.stmts(body, true)
					loop := "(" + lets + "(List.range " + iv.Name + "'.toNat).all (fun k' => " + inner + b + "))"
					// the counters are not used after the loop in the accepted subset
					return "(if !" + loop + " then false else " + c.stmts(rest, inLoop) + ")"
				}
			}
		}
		fail("%s: unsupported for loop", c.pos(s))
	}
	fail("%s: unsupported statement in a validator", c.pos(s))
	return ""
}

func (c *vctx) anyArg(a ast.Expr) string {
	if id, ok := a.(*ast.Ident); ok {
		switch c.kind[id.Name] {
		case "L", "R", "LL":
			return id.Name + "'"
		}
	}
	if _, ok := a.(*ast.CompositeLit); ok {
		return c.listE(a)
	}
	return c.intE(a)
}

func terminates(list []ast.Stmt) bool {
	if len(list) == 0 {
		return false
	}
	switch v := list[len(list)-1].(type) {
	case *ast.ReturnStmt:
		return true
	case *ast.BranchStmt:
		return v.Tok == token.CONTINUE
	case *ast.IfStmt:
		if v.Else == nil {
			return false
		}
		eb, ok := v.Else.(*ast.BlockStmt)
		return ok && terminates(v.Body.List) && terminates(eb.List)
	}
	return false
}

func translateValidator(fset *token.FileSet, fd *ast.FuncDecl, known map[string]bool) (def string, err error) {
	defer func() {
		if r := recover(); r != nil {
			if u, ok := r.(unsupported); ok {
				err = fmt.Errorf("%s", u.msg)
				return
			}
			panic(r)
		}
	}()
	c := &vctx{fset: fset, kind: map[string]string{}, funcs: known}
	var binders []string
	for _, f := range fd.Type.Params.List {
		k, ty := "", ""
		switch t := f.Type.(type) {
		case *ast.Ident:
			if t.Name == "int" {
				k, ty = "I", "Int"
			}
		case *ast.ArrayType:
			switch et := t.Elt.(type) {
			case *ast.Ident:
				if et.Name == "int" {
					k, ty = "L", "List Int"
				}
			case *ast.SelectorExpr:
				if et.Sel.Name == "Range" {
					k, ty = "R", "List (Int × Int)"
				}
			case *ast.ArrayType:
				if id, ok := et.Elt.(*ast.Ident); ok && id.Name == "int" {
					k, ty = "LL", "List (List Int)"
				}
			}
		}
		if k == "" {
			fail("%s: unsupported parameter type", fset.Position(f.Pos()))
		}
		for _, n := range f.Names {
			c.kind[n.Name] = k
			binders = append(binders, "("+n.Name+"' : "+ty+")")
		}
	}
	body := c.stmts(fd.Body.List, false)
	return "def " + fd.Name.Name + " " + strings.Join(binders, " ") + " : Bool :=\n  " + body, nil
}
