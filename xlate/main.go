// xlate: a small syntax-directed translator from the REGULAR parts of /repo's Go source to Lean definitions over the
// primitives of the hand-written model (lean/Qeep). It is the second tie between model and source (DESIGN.md §4b):
//
//	xlate <repo-root> <out-dir> <report.json>      writes <out-dir>/{Rules,Act,Loss,FC,SGD}.lean
//
// What it translates (everything else of the library is tied behaviourally, by the correspondence run):
//
//	components   the tensor-computation bodies of the activations, losses (incl. clip), FC.forward, SGD.Update:
//	             straight-line sequences of public tensor calls → do-blocks in the model's heap monad `HM α Nat`
//	rules        every `gradFn` closure of tensor/internal/gradtrack/gradients.go, with the operand list of the
//	             constructor's tracking head and the edge targets → `List (Nat × (Tensor α → Out (Tensor α)))`
//	             over the model's value operations
//	helpers      toZeros, toOnes, reducerBroadcasted
//
// The generated file is compared with the model by kernel-checked equations (lean/QeepTie/Tie.lean): a change of the
// Go text that changes the generated definitions breaks those equations; Go the translator does not understand is
// reported (report.json: "untranslated") and makes the tie for that function fail as well.
//
// The translator accepts a deliberately small Go subset and REJECTS everything else (no guessing): identifiers,
// selector fields listed in the target's field table, calls of the public tensor methods listed in `ops`, the helper
// functions above, int/float literals and + - * / on them, `len(shape)`, `shape[i]`, `float64(int)`, the statement forms
// `v := e`, `v = e`, `v, err := call` / `v, err = call` immediately followed by `if err != nil { [err = …;] return }`,
// `if cond { return e, nil }`, `return call`, `return e, nil`, `return nil` (SGD.Update).
package main

import (
	"crypto/sha1"
	"encoding/hex"
	"encoding/json"
	"fmt"
	"go/ast"
	"go/constant"
	"go/parser"
	"go/printer"
	"go/token"
	"math/big"
	"os"
	"path/filepath"
	"sort"
	"strings"
)

// ---------------------------------------------------------------- operation table (trusted: Go method ↦ model primitive)

type opInfo struct {
	args   string // kinds of the Go arguments: F float, I int, T tensor, S shape, R range list
	hm     string // model operation in the heap monad (receiver, then arguments)
	val    string // model value operation
	pure   bool   // value operation returns a tensor, not Out
	goErr  bool   // the Go method returns (Tensor, error)
	tFirst bool
}

var ops = map[string]opInfo{
	"Scale": {args: "F", hm: "hScale", val: "vScale", pure: true},
	"Pow":   {args: "F", hm: "hPow", val: "vPow", pure: true},
	"Exp":   {hm: "hUnary .exp", val: "vUnary .exp", pure: true},
	"Log":   {hm: "hUnary .log", val: "vUnary .log", pure: true},
	"Sin":   {hm: "hUnary .sin", val: "vUnary .sin", pure: true},
	"Cos":   {hm: "hUnary .cos", val: "vUnary .cos", pure: true},
	"Tan":   {hm: "hUnary .tan", val: "vUnary .tan", pure: true},
	"Sinh":  {hm: "hUnary .sinh", val: "vUnary .sinh", pure: true},
	"Cosh":  {hm: "hUnary .cosh", val: "vUnary .cosh", pure: true},
	"Tanh":  {hm: "hUnary .tanh", val: "vUnary .tanh", pure: true},

	"Eq":    {args: "T", hm: "hCmp .eq", val: "vCmp .eq", goErr: true},
	"Ne":    {args: "T", hm: "hCmp .ne", val: "vCmp .ne", goErr: true},
	"Gt":    {args: "T", hm: "hCmp .gt", val: "vCmp .gt", goErr: true},
	"Ge":    {args: "T", hm: "hCmp .ge", val: "vCmp .ge", goErr: true},
	"Lt":    {args: "T", hm: "hCmp .lt", val: "vCmp .lt", goErr: true},
	"Le":    {args: "T", hm: "hCmp .le", val: "vCmp .le", goErr: true},
	"ElMax": {args: "T", hm: "hCmp .elmax", val: "vCmp .elmax", goErr: true},
	"ElMin": {args: "T", hm: "hCmp .elmin", val: "vCmp .elmin", goErr: true},

	"Add": {args: "T", hm: "hArith .add", val: "vArith .add", goErr: true},
	"Sub": {args: "T", hm: "hArith .sub", val: "vArith .sub", goErr: true},
	"Mul": {args: "T", hm: "hArith .mul", val: "vArith .mul", goErr: true},
	"Div": {args: "T", hm: "hArith .div", val: "vArith .div", goErr: true},

	"Dot":    {args: "T", hm: "hDot", val: "vDot", goErr: true},
	"MatMul": {args: "T", hm: "hMatMul", val: "vMatMul", goErr: true},

	"SumAlong":  {args: "I", hm: "hAlong .sum", val: "vAlong .sum", goErr: true},
	"MaxAlong":  {args: "I", hm: "hAlong .max", val: "vAlong .max", goErr: true},
	"MinAlong":  {args: "I", hm: "hAlong .min", val: "vAlong .min", goErr: true},
	"AvgAlong":  {args: "I", hm: "hAlong .avg", val: "vAlong .avg", goErr: true},
	"VarAlong":  {args: "I", hm: "hAlong .var", val: "vAlong .var", goErr: true},
	"StdAlong":  {args: "I", hm: "hAlong .std", val: "vAlong .std", goErr: true},
	"MeanAlong": {args: "I", hm: "hAlong .mean", val: "vAlong .mean", goErr: true},

	"UnSqueeze": {args: "I", hm: "hUnSqueeze", val: "vUnSqueeze", goErr: true},
	"Squeeze":   {args: "I", hm: "hSqueeze", val: "vSqueeze", goErr: true},
	"Flatten":   {args: "I", hm: "hFlatten", val: "vFlatten", goErr: true},
	"Transpose": {hm: "hTranspose", val: "vTranspose", goErr: true},
	"Reshape":   {args: "s", val: "vReshape", goErr: true},
	"Broadcast": {args: "S", val: "vBroadcastN", goErr: true},
	"Slice":     {args: "R", val: "vSlice", goErr: true},
	"Patch":     {args: "RT", val: "vPatch", goErr: true},
}

// helper functions of gradient_helpers.go / ce.go callable from translated bodies
type helperInfo struct {
	args  string
	lean  string
	goErr bool
	pure  bool
}

var helpersVal = map[string]helperInfo{
	"toZeros":            {args: "T", lean: "Gen.toZeros", pure: true},
	"toOnes":             {args: "T", lean: "Gen.toOnes", pure: true},
	"reducerBroadcasted": {args: "Ttn", lean: "Gen.reducerBroadcasted", goErr: true}, // t = tensor used for its shape only
	"patchedBlock":       {args: "Rt", lean: "patchedBlock"},
}
var helpersHM = map[string]helperInfo{
	"clip": {args: "TFF", lean: "Gen.clip", goErr: true},
}

// ---------------------------------------------------------------- translation context

type unsupported struct{ msg string }

func fail(format string, a ...any) { panic(unsupported{fmt.Sprintf(format, a...)}) }

type ctx struct {
	fset   *token.FileSet
	mode   string            // "hm" | "val"
	kind   map[string]string // Go identifier → kind: T F I S R
	lean   map[string]string // Go identifier → Lean term (for captured tensors in val mode: "(H.val x)")
	fields map[string][2]string
	consts map[string]constant.Value
	out    []string
	ntmp   int
	indent string
	single bool // the Go function has a single (tensor) result and cannot fail
}

func (c *ctx) emit(s string)         { c.out = append(c.out, c.indent+s) }
func (c *ctx) fresh() string         { c.ntmp++; return fmt.Sprintf("t_%d", c.ntmp) }
func (c *ctx) pos(n ast.Node) string { return c.fset.Position(n.Pos()).String() }

func leanIdent(s string) string {
	switch s {
	case "u", "l", "s", "d", "n", "g", "w", "b", "x", "y", "o", "a", "p", "eq", "gx", "gy", "ga", "gb", "yb":
		return s + "'" // keep clear of anything in scope of the opened namespaces; primes are harmless
	}
	if strings.HasPrefix(s, "_") {
		return "c" + s
	}
	return s + "'"
}

// exact constant folding of float/int constant expressions (Go evaluates them exactly, then rounds once)
func (c *ctx) constOf(e ast.Expr) (constant.Value, bool) {
	switch v := e.(type) {
	case *ast.BasicLit:
		if v.Kind == token.INT || v.Kind == token.FLOAT {
			return constant.MakeFromLiteral(v.Value, v.Kind, 0), true
		}
	case *ast.Ident:
		if cv, ok := c.consts[v.Name]; ok {
			if _, shadow := c.kind[v.Name]; !shadow {
				return cv, true
			}
		}
	case *ast.ParenExpr:
		return c.constOf(v.X)
	case *ast.UnaryExpr:
		if x, ok := c.constOf(v.X); ok && (v.Op == token.SUB || v.Op == token.ADD) {
			return constant.UnaryOp(v.Op, x, 0), true
		}
	case *ast.BinaryExpr:
		x, ok1 := c.constOf(v.X)
		y, ok2 := c.constOf(v.Y)
		if ok1 && ok2 {
			switch v.Op {
			case token.ADD, token.SUB, token.MUL:
				return constant.BinaryOp(x, v.Op, y), true
			case token.QUO:
				// float context only (callers use this for float arguments)
				return constant.BinaryOp(constant.ToFloat(x), token.QUO, constant.ToFloat(y)), true
			}
		}
	}
	return nil, false
}

// a finite decimal m * 10^-e as the model's literal
func leanOfConst(v constant.Value) string {
	r := new(big.Rat)
	switch v.Kind() {
	case constant.Int, constant.Float:
		if _, ok := r.SetString(v.ExactString()); !ok {
			fail("constant %s not rational", v.ExactString())
		}
	default:
		fail("constant kind")
	}
	neg := r.Sign() < 0
	if neg {
		r.Neg(r)
	}
	var s string
	if r.IsInt() {
		s = fmt.Sprintf("(ofNat %s)", r.Num().String())
	} else {
		// find e with r*10^e integral
		e := 0
		t := new(big.Rat).Set(r)
		ten := big.NewRat(10, 1)
		for !t.IsInt() {
			t.Mul(t, ten)
			e++
			if e > 400 {
				fail("constant %s is not a finite decimal", r.String())
			}
		}
		s = fmt.Sprintf("(ofSci %s %d)", t.Num().String(), e)
	}
	if neg {
		return "(neg " + s + ")"
	}
	return s
}

// ---- expressions by kind

func (c *ctx) floatExpr(e ast.Expr) string {
	if v, ok := c.constOf(e); ok {
		return leanOfConst(v)
	}
	switch v := e.(type) {
	case *ast.Ident:
		if c.kind[v.Name] == "F" {
			return c.lean[v.Name]
		}
	case *ast.ParenExpr:
		return c.floatExpr(v.X)
	case *ast.SelectorExpr:
		if f, ok := c.fields[selName(v)]; ok && f[0] == "F" {
			return f[1]
		}
	case *ast.CallExpr:
		if id, ok := v.Fun.(*ast.Ident); ok && id.Name == "float64" && len(v.Args) == 1 {
			return "(ofNat " + c.intExpr(v.Args[0]) + ")"
		}
	case *ast.BinaryExpr:
		opn := map[token.Token]string{token.ADD: "add", token.SUB: "sub", token.MUL: "mul", token.QUO: "div"}[v.Op]
		if opn != "" {
			return "(" + opn + " " + c.floatExpr(v.X) + " " + c.floatExpr(v.Y) + ")"
		}
	}
	fail("%s: unsupported float expression", c.pos(e))
	return ""
}

func selName(s *ast.SelectorExpr) string {
	if id, ok := s.X.(*ast.Ident); ok {
		return id.Name + "." + s.Sel.Name
	}
	return "?"
}

// int expressions are natural numbers in the model (dims, sizes, ranks)
func (c *ctx) intExpr(e ast.Expr) string {
	switch v := e.(type) {
	case *ast.BasicLit:
		if v.Kind == token.INT {
			return v.Value
		}
	case *ast.Ident:
		if c.kind[v.Name] == "I" {
			return c.lean[v.Name]
		}
	case *ast.ParenExpr:
		return c.intExpr(v.X)
	case *ast.SelectorExpr:
		if f, ok := c.fields[selName(v)]; ok && f[0] == "I" {
			return f[1]
		}
	case *ast.CallExpr:
		if id, ok := v.Fun.(*ast.Ident); ok && id.Name == "len" && len(v.Args) == 1 {
			return "(" + c.shapeExpr(v.Args[0]) + ").length"
		}
	case *ast.IndexExpr:
		return "((" + c.shapeExpr(v.X) + ").getD " + c.intExpr(v.Index) + " 0)"
	case *ast.BinaryExpr:
		if v.Op == token.SUB || v.Op == token.ADD {
			o := map[token.Token]string{token.SUB: "-", token.ADD: "+"}[v.Op]
			return "(" + c.intExpr(v.X) + " " + o + " " + c.intExpr(v.Y) + ")"
		}
	}
	fail("%s: unsupported int expression", c.pos(e))
	return ""
}

func (c *ctx) shapeExpr(e ast.Expr) string {
	switch v := e.(type) {
	case *ast.Ident:
		if c.kind[v.Name] == "S" {
			return c.lean[v.Name]
		}
	case *ast.CallExpr:
		if s, ok := v.Fun.(*ast.SelectorExpr); ok && s.Sel.Name == "Shape" && len(v.Args) == 0 {
			return c.dimsOf(s.X)
		}
	}
	fail("%s: unsupported shape expression", c.pos(e))
	return ""
}

// dims of a tensor expression that is a plain identifier
func (c *ctx) dimsOf(e ast.Expr) string {
	id, ok := e.(*ast.Ident)
	if !ok || c.kind[id.Name] != "T" {
		fail("%s: Shape() of a non-identifier", c.pos(e))
	}
	if d := c.kind[id.Name+"#dimsonly"]; d != "" {
		return d
	}
	if c.mode == "val" {
		return c.lean[id.Name] + ".dims"
	}
	fail("%s: Shape() in a component body", c.pos(e))
	return ""
}

func (c *ctx) rangesExpr(e ast.Expr) string {
	switch v := e.(type) {
	case *ast.Ident:
		if c.kind[v.Name] == "R" {
			return c.lean[v.Name]
		}
	case *ast.CallExpr:
		if id, ok := v.Fun.(*ast.Ident); ok && id.Name == "patchedBlock" && len(v.Args) == 2 {
			return "(patchedBlock " + c.rangesExpr(v.Args[0]) + " " + c.dimsOf(v.Args[1]) + ")"
		}
	}
	fail("%s: unsupported range-list expression", c.pos(e))
	return ""
}

// tensor expression → a Lean atom (identifier or parenthesised pure term); emits `let` lines for the calls on the way.
// `monadic` tells the caller whether the LAST call was error-returning in Go (needed to check the statement form).
func (c *ctx) tensorExpr(e ast.Expr, top bool) (term string, goErr bool) {
	switch v := e.(type) {
	case *ast.Ident:
		if c.kind[v.Name] == "T" {
			return c.lean[v.Name], false
		}
	case *ast.ParenExpr:
		return c.tensorExpr(v.X, top)
	case *ast.SelectorExpr:
		if f, ok := c.fields[selName(v)]; ok && f[0] == "T" {
			return f[1], false
		}
	case *ast.CallExpr:
		call, ge := c.callTerm(v)
		if top {
			return call.s, ge
		}
		// nested call: only calls that cannot fail in Go may be nested (Go has no way to nest a 2-valued call)
		if ge {
			fail("%s: nested error-returning call", c.pos(e))
		}
		return c.bindTmp(call), false
	}
	fail("%s: unsupported tensor expression", c.pos(e))
	return "", false
}

// bind a call term to a fresh name; in hm mode every call is monadic, in val mode pure calls are inlined
func (c *ctx) bindTmp(call callT) string {
	if c.mode == "val" && call.pure {
		return "(" + call.s + ")"
	}
	t := c.fresh()
	c.emit(fmt.Sprintf("let %s ← %s", t, call.s))
	return t
}

type callT struct {
	s    string
	pure bool // val mode: a tensor, not an Out
}

func (c *ctx) callTerm(v *ast.CallExpr) (callT, bool) {
	// helper function call
	if id, ok := v.Fun.(*ast.Ident); ok {
		hs := helpersVal
		if c.mode == "hm" {
			hs = helpersHM
		}
		h, ok := hs[id.Name]
		if !ok {
			fail("%s: call of unknown function %s", c.pos(v), id.Name)
		}
		if len(v.Args) != len(h.args) {
			fail("%s: arity of %s", c.pos(v), id.Name)
		}
		parts := []string{h.lean}
		if c.mode == "val" {
			// helpers in val mode take no heap: tensors are values
		}
		for i, k := range h.args {
			parts = append(parts, c.argOf(byte(k), v.Args[i]))
		}
		return callT{strings.Join(parts, " "), h.pure}, h.goErr
	}
	sel, ok := v.Fun.(*ast.SelectorExpr)
	if !ok {
		fail("%s: unsupported call", c.pos(v))
	}
	// y.Gradient() in a closure is the upstream gradient
	if sel.Sel.Name == "Gradient" && len(v.Args) == 0 && c.mode == "val" {
		if id, ok := sel.X.(*ast.Ident); ok && c.lean[id.Name+"#grad"] != "" {
			return callT{c.lean[id.Name+"#grad"], true}, false
		}
		fail("%s: Gradient() of something other than the result tensor", c.pos(v))
	}
	op, ok := ops[sel.Sel.Name]
	if !ok {
		fail("%s: unknown tensor method %s", c.pos(v), sel.Sel.Name)
	}
	if len(v.Args) != len(op.args) {
		fail("%s: arity of %s", c.pos(v), sel.Sel.Name)
	}
	recv, _ := c.tensorExpr(sel.X, false)
	name := op.hm
	if c.mode == "val" {
		name = op.val
	}
	if name == "" {
		fail("%s: method %s not available in %s bodies", c.pos(v), sel.Sel.Name, c.mode)
	}
	parts := []string{name, recv}
	for i, k := range op.args {
		parts = append(parts, c.argOf(byte(k), v.Args[i]))
	}
	return callT{strings.Join(parts, " "), c.mode == "val" && op.pure}, op.goErr
}

func (c *ctx) argOf(k byte, a ast.Expr) string {
	switch k {
	case 'F':
		return c.floatExpr(a)
	case 'I':
		return "((" + c.intExpr(a) + " : Nat) : Int)"
	case 'T':
		t, _ := c.tensorExpr(a, false)
		return t
	case 't':
		return c.dimsOf(a)
	case 'n':
		return "(" + c.intExpr(a) + " : Nat)"
	case 'S':
		return c.shapeExpr(a)
	case 's': // a shape passed where the model takes Go ints
		return "((" + c.shapeExpr(a) + ").map Int.ofNat)"
	case 'R':
		return c.rangesExpr(a)
	}
	fail("arg kind")
	return ""
}

// ---- statements

func isErrCheck(s ast.Stmt) bool {
	ifs, ok := s.(*ast.IfStmt)
	if !ok || ifs.Init != nil || ifs.Else != nil {
		return false
	}
	b, ok := ifs.Cond.(*ast.BinaryExpr)
	if !ok || b.Op != token.NEQ {
		return false
	}
	x, ok1 := b.X.(*ast.Ident)
	y, ok2 := b.Y.(*ast.Ident)
	if !ok1 || !ok2 || x.Name != "err" || y.Name != "nil" {
		return false
	}
	// body: optional `err = fmt.Errorf(...)`, then bare return
	body := ifs.Body.List
	if len(body) == 2 {
		as, ok := body[0].(*ast.AssignStmt)
		if !ok || len(as.Lhs) != 1 {
			return false
		}
		if id, ok := as.Lhs[0].(*ast.Ident); !ok || id.Name != "err" {
			return false
		}
		body = body[1:]
	}
	if len(body) != 1 {
		return false
	}
	r, ok := body[0].(*ast.ReturnStmt)
	return ok && len(r.Results) == 0
}

func isNil(e ast.Expr) bool { id, ok := e.(*ast.Ident); return ok && id.Name == "nil" }

// translate a statement list ending in a return; `results` = number of Go results before the error (1 for tensor
// functions; 0 for SGD.Update whose result is the tensor stored through the pointer, named by storeVar)
func (c *ctx) block(stmts []ast.Stmt, storeVar string) {
	for i := 0; i < len(stmts); i++ {
		switch s := stmts[i].(type) {
		case *ast.AssignStmt:
			if len(s.Lhs) == 2 && len(s.Rhs) == 1 {
				// v, err := call ; if err != nil { return }
				lhs, ok := s.Lhs[0].(*ast.Ident)
				if !ok {
					// *wptr, err = …  (SGD.Update): the stored tensor
					if st, ok2 := s.Lhs[0].(*ast.StarExpr); ok2 && storeVar != "" {
						if id, ok3 := st.X.(*ast.Ident); ok3 && id.Name == storeVar {
							lhs = &ast.Ident{Name: "*" + storeVar}
							ok = true
						}
					}
					if !ok {
						fail("%s: unsupported assignment target", c.pos(s))
					}
				}
				if e, ok := s.Lhs[1].(*ast.Ident); !ok || e.Name != "err" {
					fail("%s: second result must be err", c.pos(s))
				}
				if i+1 >= len(stmts) || !isErrCheck(stmts[i+1]) {
					fail("%s: error result not checked immediately", c.pos(s))
				}
				call, ok2 := s.Rhs[0].(*ast.CallExpr)
				if !ok2 {
					fail("%s: two-valued assignment from a non-call", c.pos(s))
				}
				ct, ge := c.callTerm(call)
				if !ge {
					fail("%s: two-valued assignment from a call that returns no error", c.pos(s))
				}
				name := leanIdent(lhs.Name)
				if strings.HasPrefix(lhs.Name, "*") {
					name = "stored'"
				}
				c.emit(fmt.Sprintf("let %s ← %s", name, ct.s))
				c.kind[lhs.Name] = "T"
				c.lean[lhs.Name] = name
				i++ // the error check
				continue
			}
			if len(s.Lhs) == 1 && len(s.Rhs) == 1 {
				lhs, ok := s.Lhs[0].(*ast.Ident)
				if !ok {
					fail("%s: unsupported assignment target", c.pos(s))
				}
				name := leanIdent(lhs.Name)
				// decide the kind of the right-hand side
				k, term, monadic := c.anyExpr(s.Rhs[0])
				if monadic {
					c.emit(fmt.Sprintf("let %s ← %s", name, term))
				} else {
					c.emit(fmt.Sprintf("let %s := %s", name, term))
				}
				c.kind[lhs.Name] = k
				c.lean[lhs.Name] = name
				continue
			}
			fail("%s: unsupported assignment", c.pos(s))
		case *ast.IfStmt:
			// if cond { return e, nil }
			if s.Init != nil || s.Else != nil || len(s.Body.List) != 1 {
				fail("%s: unsupported if", c.pos(s))
			}
			r, ok := s.Body.List[0].(*ast.ReturnStmt)
			if !ok || len(r.Results) != 2 || !isNil(r.Results[1]) {
				fail("%s: unsupported if body", c.pos(s))
			}
			cond := c.condExpr(s.Cond)
			sub := *c
			sub.out = nil
			sub.indent = ""
			t, ge := sub.tensorExpr(r.Results[0], true)
			if ge || len(sub.out) != 0 {
				fail("%s: early return of a failing computation", c.pos(s))
			}
			c.ntmp = sub.ntmp
			c.emit(fmt.Sprintf("if %s then pure %s else do", cond, paren(t)))
			continue
		case *ast.ReturnStmt:
			if i != len(stmts)-1 {
				fail("%s: return before the end", c.pos(s))
			}
			switch {
			case len(s.Results) == 1 && c.single:
				t, ge := c.tensorExpr(s.Results[0], true)
				if ge {
					fail("%s: error result dropped", c.pos(s))
				}
				c.emit(t)
			case len(s.Results) == 1 && storeVar == "":
				// return call   (call returns (Tensor, error))
				call, ok := s.Results[0].(*ast.CallExpr)
				if !ok {
					fail("%s: one-valued return of a non-call", c.pos(s))
				}
				ct, ge := c.callTerm(call)
				if !ge {
					fail("%s: one-valued return of a call that returns no error", c.pos(s))
				}
				c.emit(ct.s)
			case len(s.Results) == 1 && storeVar != "" && isNil(s.Results[0]):
				c.emit("pure " + c.lean["*"+storeVar])
			case len(s.Results) == 2 && isNil(s.Results[1]):
				t, ge := c.tensorExpr(s.Results[0], true)
				if ge {
					fail("%s: `return call, nil` of an error-returning call", c.pos(s))
				}
				// a pure call in hm mode is still monadic in the model (it allocates a node)
				if _, isCall := s.Results[0].(*ast.CallExpr); isCall && c.mode == "hm" {
					c.emit(t)
				} else {
					c.emit("pure " + paren(t))
				}
			default:
				fail("%s: unsupported return", c.pos(s))
			}
			return
		default:
			fail("%s: unsupported statement", c.pos(stmts[i]))
		}
	}
	fail("function body does not end in a return")
}

func paren(s string) string {
	if strings.ContainsAny(s, " ") && !strings.HasPrefix(s, "(") {
		return "(" + s + ")"
	}
	return s
}

// expression of any kind for `v := e`
func (c *ctx) anyExpr(e ast.Expr) (kind, term string, monadic bool) {
	switch v := e.(type) {
	case *ast.CallExpr:
		if sel, ok := v.Fun.(*ast.SelectorExpr); ok && sel.Sel.Name == "Shape" {
			return "S", c.shapeExpr(e), false
		}
		if id, ok := v.Fun.(*ast.Ident); ok && (id.Name == "len") {
			return "I", c.intExpr(e), false
		}
		if id, ok := v.Fun.(*ast.Ident); ok && (id.Name == "float64") {
			return "F", c.floatExpr(e), false
		}
		ct, ge := c.callTerm(v)
		if ge {
			fail("%s: error result of a call dropped", c.pos(e))
		}
		return "T", ct.s, !(c.mode == "val" && ct.pure)
	case *ast.Ident:
		if k := c.kind[v.Name]; k != "" {
			return k, c.lean[v.Name], false
		}
	case *ast.SelectorExpr:
		if f, ok := c.fields[selName(v)]; ok {
			return f[0], f[1], false
		}
	case *ast.IndexExpr:
		return "I", c.intExpr(e), false
	case *ast.BasicLit:
		if v.Kind == token.INT {
			return "I", v.Value, false
		}
	}
	fail("%s: unsupported right-hand side", c.pos(e))
	return "", "", false
}

func (c *ctx) condExpr(e ast.Expr) string {
	b, ok := e.(*ast.BinaryExpr)
	if !ok || b.Op != token.EQL {
		fail("%s: unsupported condition", c.pos(e))
	}
	// float == 0  |  int == literal
	if id, ok := b.X.(*ast.Ident); ok {
		switch c.kind[id.Name] {
		case "F":
			if v, ok := c.constOf(b.Y); ok && constant.Sign(v) == 0 {
				return "isZero " + c.lean[id.Name]
			}
		case "I":
			return c.lean[id.Name] + " = " + c.intExpr(b.Y)
		}
	}
	fail("%s: unsupported condition", c.pos(e))
	return ""
}

// ---------------------------------------------------------------- targets

type report struct {
	Translated   []string            `json:"translated"`
	Untranslated map[string]string   `json:"untranslated"`
	Constructors map[string]any      `json:"constructors"`
	Files        []string            `json:"files"`
	Wiring       map[string][]string `json:"wiring"`
	FuncHashes   map[string]string   `json:"func_hashes"`
}

func exprText(fset *token.FileSet, e ast.Expr) string {
	var b strings.Builder
	printer.Fprint(&b, fset, e)
	return strings.Join(strings.Fields(b.String()), " ")
}

func nodeText(fset *token.FileSet, n ast.Node) string {
	var b strings.Builder
	printer.Fprint(&b, fset, n)
	return b.String()
}

func parseFile(fset *token.FileSet, path string) *ast.File {
	f, err := parser.ParseFile(fset, path, nil, 0)
	if err != nil {
		fmt.Fprintln(os.Stderr, "parse error:", err)
		os.Exit(2)
	}
	return f
}

func findFunc(f *ast.File, recv, name string) *ast.FuncDecl {
	for _, d := range f.Decls {
		fd, ok := d.(*ast.FuncDecl)
		if !ok || fd.Name.Name != name {
			continue
		}
		r := ""
		if fd.Recv != nil && len(fd.Recv.List) == 1 {
			switch t := fd.Recv.List[0].Type.(type) {
			case *ast.StarExpr:
				if id, ok := t.X.(*ast.Ident); ok {
					r = id.Name
				}
			case *ast.Ident:
				r = t.Name
			}
		}
		if r == recv {
			return fd
		}
	}
	return nil
}

func fileConsts(f *ast.File) map[string]constant.Value {
	m := map[string]constant.Value{}
	for _, d := range f.Decls {
		gd, ok := d.(*ast.GenDecl)
		if !ok || gd.Tok != token.CONST {
			continue
		}
		for _, sp := range gd.Specs {
			vs := sp.(*ast.ValueSpec)
			for i, n := range vs.Names {
				if i < len(vs.Values) {
					if bl, ok := vs.Values[i].(*ast.BasicLit); ok && (bl.Kind == token.INT || bl.Kind == token.FLOAT) {
						m[n.Name] = constant.MakeFromLiteral(bl.Value, bl.Kind, 0)
					}
				}
			}
		}
	}
	return m
}

type compTarget struct {
	sect                 string
	file, recv, fn, lean string
	params               [][3]string // go name, kind, lean binder  (in order)
	fields               map[string][2]string
	skipValidation       bool // body starts with `err = c.validateInputs(...)` / `x, err := c.toValidInputs(...)` + check: skipped (tied separately)
	storeVar             string
	extraBinders         string
}

func main() {
	root, outPath, repPath := os.Args[1], os.Args[2], os.Args[3]
	fset := token.NewFileSet()
	rep := report{Untranslated: map[string]string{}, Constructors: map[string]any{}}
	outs := map[string][]string{}
	cur := ""
	w := func(s string) { outs[cur] = append(outs[cur], s) }
	section := func(name string) {
		cur = name
		if len(outs[cur]) > 0 {
			return
		}
		w("/- GENERATED by /verif/xlate from /repo's current source. Do not edit: regenerated on every check run. -/")
		w("import Qeep.Components")
		w("set_option linter.unusedVariables false")
		w("namespace Qeep.Gen")
		w("open Scalar")
		w("variable {α : Type} [Scalar α]")
		w("")
	}
	section("Rules")

	// ---- helpers of gradient_helpers.go (value world)
	ghPath := filepath.Join(root, "tensor/internal/gradtrack/gradient_helpers.go")
	gh := parseFile(fset, ghPath)
	rep.Files = append(rep.Files, ghPath)
	helperDefs := []struct {
		name   string
		params [][3]string
		sig    string
	}{
		{"toZeros", [][3]string{{"t", "T", "t'"}}, "def toZeros (t' : Tensor α) : Tensor α :="},
		{"toOnes", [][3]string{{"t", "T", "t'"}}, "def toOnes (t' : Tensor α) : Tensor α :="},
		{"reducerBroadcasted", [][3]string{{"y", "T", "y'"}, {"x", "Tdims", "xdims'"}, {"dim", "I", "dim'"}},
			"def reducerBroadcasted (y' : Tensor α) (xdims' : List Nat) (dim' : Nat) : Out (Tensor α) := do"},
	}
	for _, h := range helperDefs {
		fd := findFunc(gh, "", h.name)
		name := "gradient_helpers." + h.name
		body, err := translateBody(fset, "val", fd, h.params, nil, nil, "", true)
		if err != nil {
			rep.Untranslated[name] = err.Error()
			continue
		}
		w("/-- " + name + " -/")
		w(h.sig)
		for _, l := range body {
			w("  " + l)
		}
		w("")
		rep.Translated = append(rep.Translated, name)
	}

	// ---- gradFn closures of gradients.go
	gPath := filepath.Join(root, "tensor/internal/gradtrack/gradients.go")
	gf := parseFile(fset, gPath)
	rep.Files = append(rep.Files, gPath)
	var ctorNames []string
	for _, d := range gf.Decls {
		fd, ok := d.(*ast.FuncDecl)
		if !ok || fd.Recv != nil || !fd.Name.IsExported() {
			continue
		}
		ctorNames = append(ctorNames, fd.Name.Name)
		lines, info, err := translateCtor(fset, fd)
		name := "gradients." + fd.Name.Name
		rep.Constructors[fd.Name.Name] = info
		if err != nil {
			rep.Untranslated[name] = err.Error()
			continue
		}
		for _, l := range lines {
			w(l)
		}
		w("")
		rep.Translated = append(rep.Translated, name)
	}
	sort.Strings(ctorNames)
	rep.Constructors["#names"] = ctorNames

	// ---- components
	act := "component/layers/activations/"
	comps := []compTarget{
		{sect: "Loss", file: "component/losses/ce.go", fn: "clip", lean: "clip",
			params: [][3]string{{"x", "T", "x'"}, {"l", "F", "l'"}, {"u", "F", "u'"}}},
		{sect: "Act", file: act + "relu.go", recv: "Relu", fn: "forward", lean: "Relu_forward", params: [][3]string{{"x", "T", "x'"}}},
		{sect: "Act", file: act + "leaky_relu.go", recv: "LeakyRelu", fn: "forward", lean: "LeakyRelu_forward",
			params: [][3]string{{"x", "T", "x'"}}, fields: map[string][2]string{"c.m": {"F", "m'"}}, extraBinders: "(m' : α) "},
		{sect: "Act", file: act + "sigmoid.go", recv: "Sigmoid", fn: "forward", lean: "Sigmoid_forward", params: [][3]string{{"x", "T", "x'"}}},
		{sect: "Act", file: act + "tanh.go", recv: "Tanh", fn: "forward", lean: "Tanh_forward", params: [][3]string{{"x", "T", "x'"}}},
		{sect: "Act", file: act + "softmax.go", recv: "Softmax", fn: "forward", lean: "Softmax_forward",
			params: [][3]string{{"x", "T", "x'"}}, fields: map[string][2]string{"c.dim": {"I", "dim'"}}, extraBinders: "(dim' : Nat) "},
		{sect: "Loss", file: "component/losses/mse.go", recv: "MSE", fn: "Compute", lean: "MSE_compute", skipValidation: true,
			params: [][3]string{{"yp", "T", "yp'"}, {"yt", "T", "yt'"}}},
		{sect: "Loss", file: "component/losses/bce.go", recv: "BCE", fn: "Compute", lean: "BCE_compute", skipValidation: true,
			params: [][3]string{{"yp", "T", "yp'"}, {"yt", "T", "yt'"}}},
		{sect: "Loss", file: "component/losses/ce.go", recv: "CE", fn: "Compute", lean: "CE_compute", skipValidation: true,
			params: [][3]string{{"yp", "T", "yp'"}, {"yt", "T", "yt'"}}},
		{sect: "FC", file: "component/layers/fc.go", recv: "FC", fn: "forward", lean: "FC_forward",
			params: [][3]string{{"x", "T", "x'"}},
			fields: map[string][2]string{"c.Weight": {"T", "weight'"}, "c.Bias": {"T", "bias'"}}, extraBinders: "(weight' bias' : Nat) "},
		{sect: "SGD", file: "component/optimizers/sgd.go", recv: "SGD", fn: "Update", lean: "SGD_update", skipValidation: true, storeVar: "wptr",
			params: [][3]string{{"w", "T", "w'"}, {"g", "T", "g'"}},
			fields: map[string][2]string{"c.learningRate": {"F", "lr'"}}, extraBinders: "(lr' : α) "},
	}
	for _, t := range comps {
		section(t.sect)
		p := filepath.Join(root, t.file)
		f := parseFile(fset, p)
		rep.Files = append(rep.Files, p)
		fd := findFunc(f, t.recv, t.fn)
		name := strings.TrimSuffix(filepath.Base(t.file), ".go") + "." + t.recv + "." + t.fn
		if fd == nil {
			rep.Untranslated[name] = "function not found"
			continue
		}
		consts := fileConsts(f)
		if strings.HasPrefix(t.file, "component/losses/") {
			for k, v := range fileConsts(parseFile(fset, filepath.Join(root, "component/losses/ce.go"))) {
				consts[k] = v
			}
		}
		body, err := translateBodyC(fset, "hm", fd, t.params, t.fields, consts, t.storeVar, t.skipValidation)
		if err != nil {
			rep.Untranslated[name] = err.Error()
			continue
		}
		var bs []string
		for _, pr := range t.params {
			switch pr[1] {
			case "T":
				bs = append(bs, "("+pr[2]+" : Nat)")
			case "F":
				bs = append(bs, "("+pr[2]+" : α)")
			}
		}
		w("/-- " + t.file + ": " + name + " -/")
		w("def " + t.lean + " " + t.extraBinders + strings.Join(bs, " ") + " : HM α Nat := do")
		for _, l := range body {
			w("  " + l)
		}
		w("")
		rep.Translated = append(rep.Translated, name)
	}
	// ---- validators
	section("Valid")
	known := map[string]bool{}
	for _, vf := range []string{"initializers.go", "accessors.go", "shape_modifiers.go", "operators.go", "reducers.go"} {
		p := filepath.Join(root, "tensor/internal/validator", vf)
		f := parseFile(fset, p)
		rep.Files = append(rep.Files, p)
		for _, d := range f.Decls {
			fd, ok := d.(*ast.FuncDecl)
			if !ok || fd.Recv != nil || !fd.Name.IsExported() {
				continue
			}
			name := "validator." + fd.Name.Name
			def, err := translateValidator(fset, fd, known)
			if err != nil {
				rep.Untranslated[name] = err.Error()
				continue
			}
			w("/-- tensor/internal/validator/" + vf + " -/")
			w(def)
			w("")
			known[fd.Name.Name] = true
			rep.Translated = append(rep.Translated, name)
		}
	}

	// ---- wiring of the public operations (cputensor.go): which validators run, which raw operation computes the
	// value, which gradtrack constructor supplies the context — in source order, as plain text
	cpPath := filepath.Join(root, "tensor/internal/cputensor/cputensor.go")
	cp := parseFile(fset, cpPath)
	rep.Files = append(rep.Files, cpPath)
	rep.Wiring = map[string][]string{}
	for _, d := range cp.Decls {
		fd, ok := d.(*ast.FuncDecl)
		if !ok || !fd.Name.IsExported() || fd.Body == nil {
			continue
		}
		var facts []string
		ast.Inspect(fd.Body, func(n ast.Node) bool {
			call, ok := n.(*ast.CallExpr)
			if !ok {
				return true
			}
			txt := exprText(fset, call)
			if sel, ok := call.Fun.(*ast.SelectorExpr); ok {
				if id, ok := sel.X.(*ast.Ident); ok {
					switch {
					case id.Name == "validator" || id.Name == "gradtrack":
						facts = append(facts, txt)
					case id.Name == "t" || id.Name == "ct" || id.Name == "cu" || strings.HasPrefix(id.Name, "ct") || strings.HasPrefix(id.Name, "cu"):
						if !sel.Sel.IsExported() || sel.Sel.Name == "Broadcast" {
							facts = append(facts, txt)
						}
					}
				}
			} else if id, ok := call.Fun.(*ast.Ident); ok {
				switch id.Name {
				case "assertCPUTensor", "assertCPUTensors", "broadcastForBinaryOp", "broadcastForMatMul", "constTensor", "eyeMatrix",
					"uniformRandomTensor", "normalRandomTensor", "initTensorFromData", "initConcatResultTensor":
					facts = append(facts, txt)
				}
			}
			return true
		})
		rep.Wiring[fd.Name.Name] = facts
	}
	// ---- fingerprint of every function of the library (comments and formatting ignored): tells a check WHICH functions
	// differ from the source the model was last reviewed against
	rep.FuncHashes = map[string]string{}
	for _, top := range []string{"tensor", "component"} {
		filepath.Walk(filepath.Join(root, top), func(p string, info os.FileInfo, err error) error {
			if err != nil || info.IsDir() || !strings.HasSuffix(p, ".go") || strings.HasSuffix(p, "_test.go") ||
				strings.Contains(p, "_test"+string(filepath.Separator)) {
				return nil
			}
			fs2 := token.NewFileSet()
			f, perr := parser.ParseFile(fs2, p, nil, 0)
			if perr != nil {
				return nil
			}
			rel, _ := filepath.Rel(root, p)
			for _, d := range f.Decls {
				var key string
				switch dd := d.(type) {
				case *ast.FuncDecl:
					recv := ""
					if dd.Recv != nil && len(dd.Recv.List) == 1 {
						recv = exprText(fs2, dd.Recv.List[0].Type) + "."
					}
					key = rel + ":" + recv + dd.Name.Name
				case *ast.GenDecl:
					if dd.Tok == token.IMPORT {
						continue
					}
					key = rel + ":decl@" + strings.SplitN(nodeText(fs2, dd), "\n", 2)[0]
				}
				h := sha1.Sum([]byte(nodeText(fs2, d)))
				rep.FuncHashes[key] = hex.EncodeToString(h[:8])
			}
			return nil
		})
	}
	sort.Strings(rep.Translated)
	sort.Strings(rep.Files)
	os.MkdirAll(outPath, 0o755)
	for name, lines := range outs {
		lines = append(lines, "end Qeep.Gen")
		if err := os.WriteFile(filepath.Join(outPath, name+".lean"), []byte(strings.Join(lines, "\n")+"\n"), 0o644); err != nil {
			panic(err)
		}
	}
	js, _ := json.MarshalIndent(rep, "", " ")
	os.WriteFile(repPath, js, 0o644)
}

func translateBodyC(fset *token.FileSet, mode string, fd *ast.FuncDecl, params [][3]string, fields map[string][2]string,
	consts map[string]constant.Value, storeVar string, skipValidation bool) (lines []string, err error) {
	return translateBody(fset, mode, fd, params, fields, consts, storeVar, !skipValidation)
}

// translate the body of a function; when `whole` is false the leading validation call (+ its error check) is skipped
func translateBody(fset *token.FileSet, mode string, fd *ast.FuncDecl, params [][3]string, fields map[string][2]string,
	consts map[string]constant.Value, storeVar string, whole bool) (lines []string, err error) {
	defer func() {
		if r := recover(); r != nil {
			if u, ok := r.(unsupported); ok {
				err = fmt.Errorf("%s", u.msg)
				return
			}
			panic(r)
		}
	}()
	if fd == nil {
		fail("function not found")
	}
	c := &ctx{fset: fset, mode: mode, kind: map[string]string{}, lean: map[string]string{}, fields: fields, consts: consts}
	if c.fields == nil {
		c.fields = map[string][2]string{}
	}
	if c.consts == nil {
		c.consts = map[string]constant.Value{}
	}
	for _, p := range params {
		k := p[1]
		if k == "Tdims" {
			// a tensor parameter used for its shape only
			c.kind[p[0]] = "T"
			c.lean[p[0]] = "?shape-only-tensor"
			c.kind[p[0]+"#dimsonly"] = p[2]
			continue
		}
		c.kind[p[0]] = k
		c.lean[p[0]] = p[2]
	}
	c.single = fd.Type.Results != nil && fd.Type.Results.NumFields() == 1 && storeVar == ""
	stmts := fd.Body.List
	if !whole {
		// `err = c.validateInputs(a, b)` or `w, g, err := c.toValidInputs(p)`, then the error check
		if len(stmts) < 2 || !isErrCheck(stmts[1]) {
			fail("%s: validation prologue not recognised", c.pos(fd))
		}
		as, ok := stmts[0].(*ast.AssignStmt)
		if !ok || len(as.Rhs) != 1 {
			fail("%s: validation prologue not recognised", c.pos(fd))
		}
		call, ok := as.Rhs[0].(*ast.CallExpr)
		if !ok {
			fail("%s: validation prologue not recognised", c.pos(fd))
		}
		sel, ok := call.Fun.(*ast.SelectorExpr)
		if !ok || (sel.Sel.Name != "validateInputs" && sel.Sel.Name != "toValidInputs") {
			fail("%s: validation prologue not recognised", c.pos(fd))
		}
		stmts = stmts[2:]
	}
	c.block(stmts, storeVar)
	return c.out, nil
}

// translate one constructor of gradients.go: tracking head, edge targets, closures
func translateCtor(fset *token.FileSet, fd *ast.FuncDecl) (lines []string, info map[string]any, err error) {
	info = map[string]any{}
	defer func() {
		if r := recover(); r != nil {
			if u, ok := r.(unsupported); ok {
				err = fmt.Errorf("%s", u.msg)
				return
			}
			panic(r)
		}
	}()
	name := fd.Name.Name
	// parameters: first is the result tensor y
	type prm struct{ name, kind string }
	var ps []prm
	for _, f := range fd.Type.Params.List {
		k := ""
		switch t := f.Type.(type) {
		case *ast.SelectorExpr:
			if t.Sel.Name == "Tensor" {
				k = "T"
			}
		case *ast.Ident:
			if t.Name == "int" {
				k = "I"
			} else if t.Name == "float64" {
				k = "F"
			}
		case *ast.ArrayType:
			if s, ok := t.Elt.(*ast.SelectorExpr); ok && s.Sel.Name == "Range" {
				k = "R"
			} else if s, ok := t.Elt.(*ast.SelectorExpr); ok && s.Sel.Name == "Tensor" {
				k = "TL"
			}
		}
		if k == "" {
			fail("%s: unsupported parameter type", fset.Position(f.Pos()))
		}
		for _, n := range f.Names {
			ps = append(ps, prm{n.Name, k})
		}
	}
	if len(ps) == 0 || ps[0].kind != "T" {
		fail("%s: first parameter must be the result tensor", name)
	}
	yName := ps[0].name
	stmts := fd.Body.List
	// head: if anyIsBPDirty(ops...) { return NewDirtyGradContext() } ; if nonIsTracked(ops...) { return NewGradContext(false) }
	headArgs := func(s ast.Stmt, fn, ret string, retArgs int) []string {
		ifs, ok := s.(*ast.IfStmt)
		if !ok || ifs.Init != nil || ifs.Else != nil || len(ifs.Body.List) != 1 {
			fail("%s: tracking head not recognised", name)
		}
		call, ok := ifs.Cond.(*ast.CallExpr)
		if !ok {
			fail("%s: tracking head not recognised", name)
		}
		id, ok := call.Fun.(*ast.Ident)
		if !ok || id.Name != fn {
			fail("%s: tracking head: expected %s", name, fn)
		}
		r, ok := ifs.Body.List[0].(*ast.ReturnStmt)
		if !ok || len(r.Results) != 1 {
			fail("%s: tracking head not recognised", name)
		}
		rc, ok := r.Results[0].(*ast.CallExpr)
		if !ok {
			fail("%s: tracking head not recognised", name)
		}
		rid, ok := rc.Fun.(*ast.Ident)
		if !ok || rid.Name != ret || len(rc.Args) != retArgs {
			fail("%s: tracking head: expected return %s", name, ret)
		}
		if retArgs == 1 {
			if a, ok := rc.Args[0].(*ast.Ident); !ok || a.Name != "false" {
				fail("%s: tracking head: expected NewGradContext(false)", name)
			}
		}
		var as []string
		for _, a := range call.Args {
			aid, ok := a.(*ast.Ident)
			if !ok {
				fail("%s: tracking head operand", name)
			}
			s := aid.Name
			if call.Ellipsis.IsValid() {
				s += "..."
			}
			as = append(as, s)
		}
		return as
	}
	if len(stmts) < 3 {
		fail("%s: body too short", name)
	}
	d := headArgs(stmts[0], "anyIsBPDirty", "NewDirtyGradContext", 0)
	t := headArgs(stmts[1], "nonIsTracked", "NewGradContext", 1)
	info["dirty_operands"] = d
	info["tracked_operands"] = t
	if strings.Join(d, ",") != strings.Join(t, ",") {
		fail("%s: the two head tests look at different operands", name)
	}
	rest := stmts[2:]
	// optional defensive copy: index = append([]tensor.Range(nil), index...)
	copied := []string{}
	for len(rest) > 1 {
		as, ok := rest[0].(*ast.AssignStmt)
		if !ok || len(as.Lhs) != 1 || len(as.Rhs) != 1 {
			break
		}
		l, ok1 := as.Lhs[0].(*ast.Ident)
		call, ok2 := as.Rhs[0].(*ast.CallExpr)
		if !ok1 || !ok2 {
			break
		}
		fn, ok3 := call.Fun.(*ast.Ident)
		if !ok3 || fn.Name != "append" || len(call.Args) != 2 || !call.Ellipsis.IsValid() {
			break
		}
		src, ok4 := call.Args[1].(*ast.Ident)
		if !ok4 || src.Name != l.Name {
			break
		}
		copied = append(copied, l.Name)
		rest = rest[1:]
	}
	info["copied_slices"] = copied
	if len(rest) != 1 {
		fail("%s: statements between the head and the returned context (loop-built edges are modelled by hand)", name)
	}
	ret, ok := rest[0].(*ast.ReturnStmt)
	if !ok || len(ret.Results) != 1 {
		fail("%s: final return not recognised", name)
	}
	u, ok := ret.Results[0].(*ast.UnaryExpr)
	if !ok || u.Op != token.AND {
		fail("%s: final return not recognised", name)
	}
	lit, ok := u.X.(*ast.CompositeLit)
	if !ok {
		fail("%s: final return not recognised", name)
	}
	var edgesLit *ast.CompositeLit
	trackedTrue := false
	for _, el := range lit.Elts {
		kv, ok := el.(*ast.KeyValueExpr)
		if !ok {
			fail("%s: context literal", name)
		}
		switch kv.Key.(*ast.Ident).Name {
		case "tracked":
			if id, ok := kv.Value.(*ast.Ident); ok && id.Name == "true" {
				trackedTrue = true
			}
		case "backEdges":
			edgesLit, _ = kv.Value.(*ast.CompositeLit)
		default:
			fail("%s: unexpected field %s in the returned context", name, kv.Key.(*ast.Ident).Name)
		}
	}
	if !trackedTrue || edgesLit == nil {
		fail("%s: returned context must be tracked with literal back edges", name)
	}
	// binders
	var binders []string
	binders = append(binders, "(H : Heap α)")
	for _, p := range ps {
		switch p.kind {
		case "T":
			binders = append(binders, "("+leanIdent(p.name)+" : Nat)")
		case "I":
			binders = append(binders, "("+leanIdent(p.name)+" : Nat)")
		case "F":
			binders = append(binders, "("+leanIdent(p.name)+" : α)")
		case "R":
			binders = append(binders, "("+leanIdent(p.name)+" : List IRange)")
		default:
			fail("%s: parameter kind %s", name, p.kind)
		}
	}
	var targets []string
	var edgeTerms []string
	for _, el := range edgesLit.Elts {
		cl, ok := el.(*ast.CompositeLit)
		if !ok {
			fail("%s: edge literal", name)
		}
		var target string
		var fn *ast.FuncLit
		for _, e2 := range cl.Elts {
			kv := e2.(*ast.KeyValueExpr)
			switch kv.Key.(*ast.Ident).Name {
			case "target":
				id, ok := kv.Value.(*ast.Ident)
				if !ok {
					fail("%s: edge target", name)
				}
				target = id.Name
			case "gradFn":
				fn, _ = kv.Value.(*ast.FuncLit)
			}
		}
		if target == "" || fn == nil {
			fail("%s: edge literal", name)
		}
		targets = append(targets, target)
		c := &ctx{fset: fset, mode: "val", kind: map[string]string{}, lean: map[string]string{}, fields: map[string][2]string{},
			consts: map[string]constant.Value{}}
		for _, p := range ps {
			switch p.kind {
			case "T":
				c.kind[p.name] = "T"
				c.lean[p.name] = "(H.val " + leanIdent(p.name) + ")"
			default:
				c.kind[p.name] = p.kind
				c.lean[p.name] = leanIdent(p.name)
			}
		}
		c.lean[yName+"#grad"] = "gy₀"
		c.indent = "      "
		c.block(fn.Body.List, "")
		edgeTerms = append(edgeTerms, fmt.Sprintf("    (%s, fun gy₀ => do\n%s)", leanIdent(target), strings.Join(c.out, "\n")))
	}
	info["edge_targets"] = targets
	lines = append(lines, fmt.Sprintf("/-- gradients.go: %s — tracking head over [%s]; edges to [%s] -/", name, strings.Join(d, ", "), strings.Join(targets, ", ")))
	var opsL []string
	for _, o := range d {
		opsL = append(opsL, leanIdent(o))
	}
	var tb []string
	for _, p := range ps[1:] {
		if p.kind == "T" {
			tb = append(tb, leanIdent(p.name))
		}
	}
	lines = append(lines, fmt.Sprintf("def %s_operands (%s : Nat) : List Nat := [%s]", name, strings.Join(tb, " "), strings.Join(opsL, ", ")))
	lines = append(lines, fmt.Sprintf("def %s_edges %s : List (Nat × (Tensor α → Out (Tensor α))) := [", name, strings.Join(binders, " ")))
	lines = append(lines, strings.Join(edgeTerms, ",\n"))
	lines = append(lines, "  ]")
	return lines, info, nil
}
