module qeepxlate

go 1.22
