#!/usr/bin/env python3
"""Wire the round-M theorems (C13v, C13u, C11r) into the aggregators, obligations.json and gaps.json."""
import json, re
L = '/verif/lean/QeepProps/'

def edit(path, f):
    s = open(path).read(); s2 = f(s)
    if s2 != s:
        open(path, 'w').write(s2)

# aggregators
def agg13(s):
    if 'QeepProps.C13u' in s:
        return s
    s = s.replace('import QeepProps.C13w\n', 'import QeepProps.C13w\nimport QeepProps.C13u\n')
    s = s.rstrip()
    assert s.endswith('-/')
    s = s[:-2].rstrip() + (' `C13v` (the clip segment inside any walk: `clip_in_walk`; CE end to end: `ce_backprop_full`, `ce_backprop`,'
                           ' `ce_backprop_el`) and `C13u` (BCE end to end over all thirty tensors of the loss graph: `bce_backprop`, `bce_backprop_el`;'
                           ' `grad_three`). -/\n')
    return s
edit(L + 'C13all.lean', agg13)

def agg11(s):
    if 'QeepProps.C11r' in s:
        return s
    s = s.replace('import QeepProps.C11s\n', 'import QeepProps.C11s\nimport QeepProps.C11r\nimport QeepProps.C11p\n')
    s = s.rstrip()
    assert s.endswith('-/')
    s = s[:-2].rstrip() + (' `C11r`: a layer under a loss — FC → CE: `fc_ce_backprop` (the chain rule across the two components on the real'
                           ' walk), `fc_ce_backprop_ok` (the walk succeeds for leaf parameters), `fc_ce_train_step(_leaf)` (one whole SGD step is gradient'
                           ' descent on the CE loss of the layer\'s output). `C11p`: the LOOP under the loss — `FCCEInv`, `fc_ce_step_inv`,'
                           ' `fc_ce_training_loop` (any number of steps succeeds and the parameters are the iterates of the gradient-descent map `gdStep`). -/\n')
    return s
edit(L + 'C11all.lean', agg11)

ob = json.load(open(L + 'obligations.json'))
def add(pid, names):
    for n in names:
        if n not in ob[pid]['theorems']:
            ob[pid]['theorems'].append(n)
add('C13', ['Qeep.C13v.clip_in_walk', 'Qeep.C13v.elext_ok', 'Qeep.C13v.reach_clip', 'Qeep.C13v.ce_pathA_val', 'Qeep.C13v.ce_backprop_full',
            'Qeep.C13v.ce_backprop', 'Qeep.C13v.ce_backprop_leaf', 'Qeep.C13v.ce_backprop_el', 'Qeep.C13u.grad_three', 'Qeep.C13u.bce_backprop_full',
            'Qeep.C13u.bce_backprop', 'Qeep.C13u.bce_backprop_leaf', 'Qeep.C13u.bce_backprop_el'])
add('C11', ['Qeep.C11r.fc_ce_backprop', 'Qeep.C11r.fc_ce_backprop_ok', 'Qeep.C11r.fc_ce_train_step', 'Qeep.C11r.fc_ce_train_step_leaf',
            'Qeep.C11p.gdStep_congr', 'Qeep.C11p.gdIter_congr', 'Qeep.C11p.fc_ce_step_inv', 'Qeep.C11p.fc_ce_training_loop'])
json.dump(ob, open(L + 'obligations.json', 'w'), indent=1, ensure_ascii=False)

g = json.load(open('/verif/tools/gaps.json'))
old13 = ('For BCE and CE the lifting from the path pullbacks to the stored gradient (C01w.grad_list over the ~30 tensors of the '
         'loss graph) is not assembled; covered by the correspondence run.')
new13 = ('BCE and CE are assembled end to end as well (round M): C13v.clip_in_walk settles the clip segment inside ANY walk (all '
         'five paths from the clip\'s result to its operand, the ones through the constant x^0 adding zeros — the statement C13x '
         'left open); C13v.ce_backprop(_el): after CE.Compute and a successful BackPropagate of the loss, Gradient() of the '
         'prediction (leaf or not, m x n) is -t^/(m p) strictly inside the clip band and 0 strictly outside, on the real walk over '
         'the seventeen tensors of the loss graph (ce_backprop_full also exports the footprint of the graph for composition); '
         'C13u.bce_backprop(_el): the same for BCE over all thirty tensors — both paths to p^ (through log p^ and log(1-p^)), the '
         'constant p^^0 consumed twice, the fan-in of three at p^ (grad_three) and the clip: (-1/n)(t^/p - (1-t^)/(1-p)) inside '
         'the band, 0 outside. The progress statement is proved for both: ce_backprop_full / bce_backprop_full export "the walk succeeds as soon as '
         'the part below the prediction accepts gradients of the prediction\'s shape" (C01p.backprop_ok with the per-edge '
         'acceptance of all seventeen resp. thirty tensors, elext_ok for the tie-aware rule), hence ce_backprop_leaf / '
         'bce_backprop_leaf: on a leaf prediction BackPropagate SUCCEEDS and stores the derivative, unconditionally; for a '
         'prediction with ancestors the progress statement reduces success to the part of the walk below the prediction '
         '(discharged for an FC layer in C11r.fc_ce_backprop_ok).')
assert old13 in g['C13']
g['C13'] = g['C13'].replace(old13, new13)
old11 = ('Other depths and losses on top: C16z.fc_in_walk_sum gives dW, dB from whatever gradient the enclosing walk leaves on '
         'the layer\'s result, but no theorem instantiates a whole multi-layer step;')
new11 = ('A layer UNDER A LOSS is assembled too (round M, C11r): fc_ce_backprop — Forward of an FC layer, CE.Compute on its result, '
         'BackPropagate of the loss: W.Gradient()[o] = sum_n G[n][o] sum_d x[n][d], B.Gradient()[o] = sum_n G[n][o] with '
         'G[n][o] = dLoss/dy[n][o] = -t^/(N y) inside the clip band (C13x.ce_formula_deriv) — the chain rule across the two '
         'components on the real walk over twenty-six tensors, by composing C13v.ce_backprop_full with C16z.fc_in_walk_sum; and '
         'fc_ce_train_step: the whole step (forward, loss, BackPropagate, Update of W and B) replaces W, B by fresh leaves holding '
         'W - lr dLoss/dW, B - lr dLoss/dB: gradient descent on the CE loss of the layer\'s output (sum mode). For leaf parameters '
         'and data input / target everything is unconditional (fc_ce_backprop_ok either mode, fc_ce_train_step_leaf), and the LOOP '
         'is proved (C11p): the invariant FCCEInv (reachable heap; W, B distinct tracked unspent leaves nobody points at; untracked '
         'unspent x and t — nothing assumed about the rest of the heap, which holds the spent graphs of all earlier steps) is kept '
         'by a step (fc_ce_step_inv), hence ANY number n of steps succeeds and (W_n, B_n) = gdStep^n (W_0, B_0) with gdStep the '
         'gradient-descent map of the CE loss (fc_ce_training_loop, induction over the steps; the gradient depends on the current '
         'parameters, so the trajectory is the iteration of the map, not a closed form). Other depths and losses: C16z.fc_in_walk_sum gives dW, dB from whatever gradient '
         'the enclosing walk leaves on the layer\'s result, but no further network is instantiated;')
assert old11 in g['C11'], 'C11 gap text'
g['C11'] = g['C11'].replace(old11, new11)
old01 = 'Not assembled: BCE, CE and deeper networks;'
if old01 in g['C01']:
    g['C01'] = g['C01'].replace(old01, 'BCE and CE are assembled end to end (C13v, C13u — fan-in of three, a constant consumed twice, the clip '
                                'segment with its five paths) and FC -> CE is composed (C11r). Not assembled: deeper networks under a loss;')
json.dump(g, open('/verif/tools/gaps.json', 'w'), indent=1, ensure_ascii=False)
print('wired')
