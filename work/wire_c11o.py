import json
L='/verif/lean/QeepProps/'
s=open(L+'C11all.lean').read()
if 'QeepProps.C11o' not in s:
    s=s.replace('import QeepProps.C11p\n','import QeepProps.C11p\nimport QeepProps.C11o\n')
    s=s.rstrip(); assert s.endswith('-/')
    s=s[:-2].rstrip()+" `C11o`: `gdStep` IS gradient descent on the loss — `ceLoss_deriv_W` / `ceLoss_deriv_B` (the Mathlib partial derivatives of the composite loss CE ∘ FC with respect to the parameters) and `gdStep_is_gradient_descent` (inside the clip band the map the loop iterates is `(W, B) ↦ (W − lr·∂loss/∂W, B − lr·∂loss/∂B)` with these derivatives). -/\n"
    open(L+'C11all.lean','w').write(s)
ob=json.load(open(L+'obligations.json'))
for n in ['Qeep.C11o.ceLoss_deriv_W','Qeep.C11o.ceLoss_deriv_B','Qeep.C11o.gdStep_is_gradient_descent']:
    if n not in ob['C11']['theorems']: ob['C11']['theorems'].append(n)
json.dump(ob,open(L+'obligations.json','w'),indent=1,ensure_ascii=False)
g=json.load(open('/verif/tools/gaps.json'))
add=(" That gdStep is the gradient-descent map of the LOSS is a theorem too (C11o): ceLoss_deriv_W / ceLoss_deriv_B give the Mathlib "
     "partial derivatives of the composite loss -(1/N) sum t log(W o sum_d x + B o) with respect to W[o], B[o], and "
     "gdStep_is_gradient_descent identifies gdStep lr (W, B) with (W - lr dLoss/dW, B - lr dLoss/dB) wherever the layer's outputs are "
     "strictly inside CE's clip band (targets as the loss uses them, clipped to [0,1]).")
if 'C11o' not in g['C11']: g['C11']=g['C11'].rstrip()+add
json.dump(g,open('/verif/tools/gaps.json','w'),indent=1,ensure_ascii=False)
print('wired C11o')
s=open(L+'C13all.lean').read()
if 'QeepProps.C13s' not in s:
    s=s.replace('import QeepProps.C13t\n','import QeepProps.C13t\nimport QeepProps.C13s\n')
    s=s.rstrip(); assert s.endswith('-/')
    s=s[:-2].rstrip()+" `C13s`: `logistic_loss_deriv` — the logistic gradient `(σ(xᵢ) − tᵢ)/n` is the Mathlib partial derivative of the composite loss BCE ∘ Sigmoid with respect to the logit. -/\n"
    open(L+'C13all.lean','w').write(s)
ob=json.load(open(L+'obligations.json'))
for n in ['Qeep.C13s.logistic_summand_deriv','Qeep.C13s.logistic_loss_deriv']:
    if n not in ob['C13']['theorems']: ob['C13']['theorems'].append(n)
json.dump(ob,open(L+'obligations.json','w'),indent=1,ensure_ascii=False)
g=json.load(open('/verif/tools/gaps.json'))
add=" The logistic gradient is the Mathlib partial derivative of the composite loss BCE o Sigmoid with respect to the logit (C13s.logistic_loss_deriv)."
if 'C13s' not in g['C13']: g['C13']=g['C13'].rstrip()+add
json.dump(g,open('/verif/tools/gaps.json','w'),indent=1,ensure_ascii=False)
print('wired C13s')
