"""Generators for C09 (totality / validation) and C10 (immutability, decoupling from caller slices)."""
import itertools, random
from lib import *
from grad import SAFE_UN

INTS = list(range(-2, 7))
ALONG = ['sumalong', 'maxalong', 'minalong', 'avgalong', 'varalong', 'stdalong', 'meanalong']
BIN = ['eq', 'ne', 'gt', 'ge', 'lt', 'le', 'elmax', 'elmin', 'add', 'sub', 'mul', 'div', 'dot', 'matmul']

def small_vals(n):
    return [float(i + 1) for i in range(n)]

def rand_ints(rng, maxlen=5):
    return [rng.choice(INTS) for _ in range(rng.randint(0, maxlen))]

def ragged(rng, depth, maxlen=3, p_empty=0.1, p_ragged=0.35):
    """nested literal of the given static depth; mostly rectangular, sometimes ragged / empty somewhere"""
    rect = [rng.randint(1, maxlen) for _ in range(depth)]
    def build(level):
        if level == depth:
            return f2b(rng.randint(-3, 3))
        k = rect[level]
        if rng.random() < p_ragged / (depth + 1):
            k = rng.randint(0, maxlen)
        if rng.random() < p_empty / (depth + 1):
            k = 0
        return '[' + ','.join(build(level + 1) for _ in range(k)) + ']'
    return build(0)

def exhaustive_small_scope(level='thorough', maxlines=400):
    """EVERY call in a small scope, not a sample: all shapes of rank <= 3 with sizes <= 3 (40 shapes, pairwise
    distinct values), every index tuple / range list / target shape / dim over a small integer range, every pair of
    shapes for the binary operations. Programs are cut into chunks so that a failure shrinks quickly."""
    progs = []
    if level == 'quick':
        shapes = list(all_shapes(2, 3))                       # 13 shapes
    else:
        shapes = list(all_shapes(3, 3)) + [sh for sh in all_shapes(4, 2, 4)]   # 40 + 16 shapes
    def chunked(name, shape, cmds, tracked=False, second=None):
        """cmds: list of format strings over the handle(s)"""
        for ci in range(0, len(cmds), maxlines):
            p = Prog('%s_%d' % (name, ci // maxlines))
            t = p.tensor(shape, small_vals(prod(shape)), tracked=tracked)
            u = p.tensor(second, [50.0 + v for v in range(prod(second))]) if second is not None else None
            for c in cmds[ci:ci + maxlines]:
                line = c.replace('$T', t)
                if u is not None: line = line.replace('$U', u)
                if line.startswith('='):
                    r = p.bind(line[1:]); p.add('obs %s' % r)
                else:
                    p.add(line)
            p.tag('exhaustive-small-scope')
            progs.append(p)
    I5 = [-1, 0, 1, 2, 3]
    RNG = [(a, b) for a in [-1, 0, 1, 2, 3, 4] for b in [-1, 0, 1, 2, 3, 4]]
    for si, shape in enumerate(shapes):
        r = len(shape)
        cmds = []
        # At: every index tuple of length r-1 .. r+1 over I5
        for ln in range(max(r - 1, 0), min(r + 2, 5)):
            for idx in itertools.product(I5, repeat=ln):
                cmds.append('at $T %s' % (ints(list(idx)) if ln else '-'))
        cmds.append('at $T nil')
        # Slice: every range list of length 0 .. r over all (from,to) in [-1,4]^2 (rank 3: restricted to shapes <= 2 to bound the count)
        for ln in range(0, r + 1):
            if ln >= 3 and (max(shape) > 2 or r > 3): continue
            for rl in itertools.product(RNG, repeat=ln):
                cmds.append('=slice $T %s' % (ranges(list(rl)) if ln else '-'))
        if r <= 2:
            for rl in itertools.product(RNG, repeat=r + 1):
                cmds.append('=slice $T %s' % ranges(list(rl)))
        # Reshape / Broadcast targets: every list of length 0..3 over a small set
        for ln in range(0, 4):
            for tg in itertools.product([-1, 0, 1, 2, 3, 4, 6, 9], repeat=ln):
                cmds.append('=reshape $T %s' % (ints(list(tg)) if ln else '-'))
            for tg in itertools.product([-1, 0, 1, 2, 3], repeat=ln):
                cmds.append('=broadcast $T %s' % (ints(list(tg)) if ln else '-'))
        for k in range(-2, 6):
            for cmd in ['unsqueeze', 'squeeze', 'flatten'] + ALONG:
                cmds.append('=%s $T %d' % (cmd, k))
        cmds.append('=transpose $T')
        chunked('ex_u%d' % si, shape, cmds, tracked=(si % 2 == 0))
    # binary operations, Concat and Patch over every ordered pair of shapes
    PR = [(0, 0), (0, 1), (0, 2), (0, 3), (1, 2), (1, 3), (2, 3), (1, 1), (2, 1), (-1, 1), (0, 4)]
    for ai, sa in enumerate(shapes):
        for bi, sb in enumerate(shapes):
            cmds = []
            for o in BIN:
                cmds.append('=%s $T $U' % o)
            cmds.append('equals $T $U')
            for d in range(-1, 4):
                cmds.append('=concat $T,$U %d' % d)
                cmds.append('=concat $U,$T,$U %d' % d)
            # Patch of $U into $T: every range list of length 0 .. rank over PR (rank 3 restricted to sizes <= 2)
            r = len(sa)
            for ln in range(0, r + 1):
                if ln >= 3 and (max(sa) > 2 or max(sb or [1]) > 2 or r > 3): continue
                if ln == 2 and max(sa) > 2 and max(sb or [1]) > 2 and len(sb) == 3: continue
                for rl in itertools.product(PR, repeat=ln):
                    cmds.append('=patch $T %s $U' % (ranges(list(rl)) if ln else '-'))
            chunked('ex_b%d_%d' % (ai, bi), sa, cmds, tracked=((ai + bi) % 3 == 0), second=sb)
    return progs

def gen_C09(rng, tier):
    progs = []
    shapes = list(all_shapes(3, 3))
    rng.shuffle(shapes)
    if tier == 'quick':
        shapes = shapes[:14] + [[2, 1, 2, 1], [1, 2, 1, 2, 2]]
    else:
        shapes = shapes + [[2, 1, 2, 1], [1, 2, 1, 2, 2], [2, 2, 2, 2], [1, 1, 1, 1, 1]]
    # --- tensor methods: exhaustive single-int arguments, sampled composite arguments
    for si, shape in enumerate(shapes):
        p = Prog('c09_m%d' % si)
        t = p.tensor(shape, small_vals(prod(shape)), tracked=(si % 2 == 0))
        for k in INTS:
            for cmd in ['unsqueeze', 'squeeze', 'flatten'] + ALONG:
                r = p.bind('%s %s %d' % (cmd, t, k)); p.add('obs %s' % r)
        p.tag('int-args-exhaustive', 'rank%d' % len(shape))
        progs.append(p)
        p = Prog('c09_i%d' % si)
        t = p.tensor(shape, small_vals(prod(shape)), tracked=(si % 2 == 1))
        reps = 25 if tier == 'quick' else 120
        for _ in range(reps):
            # At: index tuples around the valid ones
            idx = [rng.choice(INTS) if rng.random() < 0.3 else rng.randrange(d) for d in shape]
            if rng.random() < 0.2: idx = idx[:-1] if idx else [0]
            if rng.random() < 0.1: idx = idx + [0]
            p.add('at %s %s' % (t, ints(idx) if idx else 'nil'))
            # Slice / Patch: ranges with reversed, oversized, negative, {0,0} entries
            rl = []
            for j in range(rng.randint(0, len(shape) + 1)):
                d = shape[j] if j < len(shape) else 2
                if rng.random() < 0.5:
                    a = rng.randint(0, d - 1); b = rng.randint(a + 1, d)
                else:
                    a, b = rng.choice(INTS), rng.choice(INTS)
                if rng.random() < 0.3: a, b = 0, 0
                rl.append((a, b))
            r = p.bind('slice %s %s' % (t, ranges(rl) if rng.random() < 0.9 else 'nil')); p.add('obs %s' % r)
            # source for patch: sometimes fitting the ranges, sometimes not
            sshape = []
            for j, d in enumerate(shape):
                if j < len(rl) and rl[j] != (0, 0) and rl[j][1] - rl[j][0] > 0 and rng.random() < 0.8:
                    sshape.append(min(rl[j][1] - rl[j][0], 6))
                else:
                    # omitted / {0,0} range: the source may be as large as the target, sometimes larger
                    sshape.append(rng.choice([d, d, rng.randint(1, d), d + 1, d + 2]))
            if rng.random() < 0.1: sshape = sshape[:-1] if sshape else [1]
            src = p.tensor(sshape, [50.0 + v for v in range(prod(sshape))])
            r = p.bind('patch %s %s %s' % (t, ranges(rl), src if rng.random() < 0.95 else 'nil')); p.add('obs %s' % r)
            # Reshape / Broadcast targets
            tgt = rand_ints(rng, 4)
            if rng.random() < 0.5:
                tgt = [abs(v) if v else 1 for v in tgt]
            r = p.bind('reshape %s %s' % (t, ints(tgt) if rng.random() < 0.9 else 'nil')); p.add('obs %s' % r)
            bt = [rng.choice([1, 2, 3]) for _ in range(rng.randint(0, 2))] + [d if rng.random() < 0.8 else rng.choice(INTS) for d in shape]
            if prod([abs(v) for v in bt] or [1]) <= 500:
                r = p.bind('broadcast %s %s' % (t, ints(bt))); p.add('obs %s' % r)
        r = p.bind('transpose %s' % t); p.add('obs %s' % r)
        p.add('equals %s nil' % t); p.add('equals %s %s' % (t, t))
        p.tag('composite-args', 'rank%d' % len(shape))
        progs.append(p)
    # --- binary operations over shape pairs, incl. nil: arbitrary pairs plus pairs related by a small edit
    # (permuted dims, one dim replaced by 1 / increased, a dim dropped or added, leading 1)
    pairs = [(a, b) for a in shapes[:10] for b in shapes[:10]]
    rng.shuffle(pairs)
    pairs = pairs[:40 if tier == 'quick' else 400]
    def variants(sh):
        out = []
        if len(sh) >= 2:
            q = list(sh); rng.shuffle(q); out.append(q)
            out.append(sh[::-1])
            out.append(sh[1:]); out.append(sh[:-1])
        for j in range(len(sh)):
            q = list(sh); q[j] = 1; out.append(q)
            q = list(sh); q[j] = sh[j] + 1; out.append(q)
        out.append([1] + sh); out.append(sh + [1]); out.append([2] + sh)
        return out
    bases = [[4, 1], [1, 4], [2, 3], [3, 2], [2, 2], [2, 3, 4], [3, 2, 4], [1, 3], [3], [2, 1, 2], [1, 1], [6], [2, 3, 1]]
    edit_pairs = []
    for b in bases:
        for v in variants(b):
            edit_pairs.append((b, v)); edit_pairs.append((v, b))
    rng.shuffle(edit_pairs)
    pairs += edit_pairs[:60 if tier == 'quick' else len(edit_pairs)]
    for pi, (sa, sb) in enumerate(pairs):
        p = Prog('c09_b%d' % pi)
        ta = p.tensor(sa, small_vals(prod(sa)), tracked=True)
        tb = p.tensor(sb, small_vals(prod(sb)))
        for o in BIN:
            r = p.bind('%s %s %s' % (o, ta, tb)); p.add('obs %s' % r)
            p.bind('%s %s nil' % (o, ta))
        p.add('equals %s %s' % (ta, tb))
        p.tag('binary-pairs')
        progs.append(p)
    # --- constructors
    for i in range(60 if tier == 'quick' else 1500):
        p = Prog('c09_c%d' % i)
        p.add('seedrng %d' % (i + 1))
        for _ in range(8):
            conf = rng.choice(['T', 'U', 'nil', 'bad', 'bad7'])
            d = rand_ints(rng, 4)
            if rng.random() < 0.5: d = [abs(v) for v in d]
            dl = ints(d) if rng.random() < 0.9 else 'nil'
            big = prod([abs(v) or 1 for v in d]) > 2000
            if big: continue
            r = p.bind('full %s %s %s' % (conf, dl, f2b(1.5))); p.add('obs %s' % r)
            r = p.bind('zeros %s %s' % (conf, dl)); p.add('obs %s' % r)
            r = p.bind('ones %s %s' % (conf, dl)); p.add('obs %s' % r)
            r = p.bind('eye %s %d' % (conf, rng.choice(INTS))); p.add('obs %s' % r)
            lo, hi = rng.choice([(0.0, 1.0), (1.0, 0.0), (1.0, 1.0), (-2.0, 5.0)])
            r = p.bind('randu %s %s %s %s' % (conf, dl, f2b(lo), f2b(hi))); p.add('obs %s' % r)
            mu, sg = rng.choice([(0.0, 1.0), (1.0, 0.0), (1.0, -1.0), (-2.0, 0.5)])
            r = p.bind('randn %s %s %s %s' % (conf, dl, f2b(mu), f2b(sg))); p.add('obs %s' % r)
        p.tag('constructors')
        progs.append(p)
    # --- TensorOf: rectangular and ragged nested data of depth 0..4
    for i in range(80 if tier == 'quick' else 3000):
        p = Prog('c09_t%d' % i)
        for _ in range(10):
            depth = rng.randint(0, 4)
            lit = ragged(rng, depth)
            r = p.bind('tensorof %s %d %s' % (rng.choice(['T', 'U', 'nil', 'bad']), depth, lit)); p.add('obs %s' % r)
        p.tag('tensorof-ragged')
        progs.append(p)
    # deterministic ragged corner cases
    p = Prog('c09_t_fixed')
    for depth, lit in [(3, '[[[%s,%s]],[[%s,%s,%s]]]'), (3, '[[[%s,%s]],[[%s]]]'), (4, '[[[[%s]]],[[[%s,%s]]]]'), (4, '[[[[%s],[%s]]],[[[%s]]]]'),
                       (2, '[[%s],[%s,%s]]'), (2, '[[%s,%s],[%s]]'), (3, '[[[%s]],[]]'), (2, '[[]]'), (1, '[]'), (4, '[[[[]]]]'), (3, '[[],[[%s]]]')]:
        k = lit.count('%s')
        r = p.bind('tensorof U %d %s' % (depth, lit % tuple(f2b(v + 1) for v in range(k)))); p.add('obs %s' % r)
    p.tag('tensorof-ragged')
    progs.append(p)
    # --- Concat
    for i in range(60 if tier == 'quick' else 1500):
        p = Prog('c09_k%d' % i)
        base = rand_shape(rng, 3, 3, 0)
        dim0 = rng.randrange(len(base)) if base else 0
        ts, good = [], []
        for j in range(5):
            s = list(base)
            if s and j < 3:
                s[dim0] = rng.randint(1, 3)              # compatible along dim0
            elif s and rng.random() < 0.7:
                s[rng.randrange(len(s))] = rng.randint(1, 4)
            if j == 4 and rng.random() < 0.3: s = s + [1]
            t = p.tensor(s, small_vals(prod(s)), tracked=rng.random() < 0.5)
            ts.append(t)
            if j < 3: good.append(t)
        results = []
        for _ in range(8):
            if base and rng.random() < 0.6:
                # accepted call: compatible operands (repetition allowed), the dimension they differ in
                names = [rng.choice(good) for _ in range(rng.randint(1, 4))]
                d = dim0
            else:
                k = rng.randint(0, 4)
                names = [rng.choice(ts) if rng.random() < 0.9 else 'nil' for _ in range(k)]
                d = rng.choice(INTS)
            lst = ','.join(names) if names else rng.choice(['-', 'nil'])
            r = p.bind('concat %s %d' % (lst, d)); p.add('obs %s' % r)
            results.append(r)
        # back-propagation entry point: nil, an operand, and the results (accepted or not) of the calls above
        p.add('bp nil'); p.add('bp %s' % ts[0])
        for r in rng.sample(results, 3):
            p.add('bp %s' % r)
        for t in ts: p.add('obs %s' % t)
        p.tag('concat')
        progs.append(p)
    # --- BackPropagate as an entry point: well-formed graphs of every kind (a sample of the gradient generators'
    # programs) must be accepted — an error or panic there is a precondition invented by the implementation
    import grad as _grad
    for g in (_grad.gen_C07, _grad.gen_C02, _grad.gen_C01, _grad.gen_C08):
        got = g(rng, 'quick')
        rng.shuffle(got)
        for q in got[:(40 if tier == 'quick' else 400)]:
            q.name = 'c09_g_' + q.name
            q.tags = set(q.tags) | {'valid-graphs'}
            progs.append(q)
    # --- components
    for i in range(80 if tier == 'quick' else 2000):
        p = Prog('c09_x%d' % i)
        p.add('seedrng %d' % (i + 7))
        # initializers
        inits = []; init_lines = []
        for _ in range(4):
            kind = rng.choice(['full', 'uniform', 'normal', 'heuniform', 'henormal', 'xavieruniform', 'xaviernormal'])
            if rng.random() < 0.25: arg = 'nil'
            elif kind == 'full': arg = f2b(rng.choice([0.0, 2.0]))
            elif kind == 'uniform': arg = '%s %s' % rng.choice([(f2b(0.0), f2b(1.0)), (f2b(1.0), f2b(0.0)), (f2b(1.0), f2b(1.0))])
            elif kind == 'normal': arg = '%s %s' % rng.choice([(f2b(0.0), f2b(1.0)), (f2b(0.0), f2b(0.0)), (f2b(1.0), f2b(-1.0))])
            elif kind in ('heuniform', 'henormal'): arg = str(rng.choice(INTS))
            else: arg = '%d %d' % (rng.choice(INTS), rng.choice(INTS))
            ini = p.bind('init %s %s' % (kind, arg), 'i')
            inits.append(ini); init_lines.append(p.lines[-1])
            d = rand_ints(rng, 3)
            if prod([abs(v) or 1 for v in d]) <= 300:
                r = p.bind('initcall %s %s' % (ini, ints(d))); p.add('obs %s' % r)
        # FC configurations
        for _ in range(3):
            if rng.random() < 0.15:
                f = p.bind('fc nil', 'f')
            else:
                opts = ''
                if rng.random() < 0.4: opts += ' W=' + rng.choice(inits + ['nil'])
                # a random Bias initializer of another family than the Weight initializer cannot be replayed from the
                # raw draws (see gen/comp.py): Bias is constant here
                if rng.random() < 0.4: opts += ' B=' + rng.choice([x for x, ln in zip(inits, init_lines) if ' full ' in ln] + ['nil'])
                f = p.bind('fc %d %d%s' % (rng.choice(INTS), rng.choice(INTS), opts), 'f')
            xs = []
            for _ in range(rng.randint(0, 2)):
                s = rand_shape(rng, 3, 3, 0) if rng.random() < 0.5 else [rng.randint(1, 3), rng.randint(1, 3)]
                xs.append(p.tensor(s, small_vals(prod(s))) if rng.random() < 0.9 else 'nil')
            y = p.bind('fwd %s %s' % (f, ' '.join(xs))); p.add('obs %s' % y)
            p.bind('weight %s %d' % (f, rng.choice([0, 1])), 'p')
        # activations
        for _ in range(3):
            a = p.bind(rng.choice(['relu', 'sigmoid', 'tanh', 'leaky nil', 'leaky %s' % f2b(0.2), 'softmax nil', 'softmax %d' % rng.choice(INTS)]), 'a')
            xs = []
            for _ in range(rng.choice([0, 1, 1, 1, 2])):
                s = rand_shape(rng, 4, 3, 0)
                xs.append(p.tensor(s, small_vals(prod(s))) if rng.random() < 0.9 else 'nil')
            y = p.bind('fwd %s %s' % (a, ' '.join(xs))); p.add('obs %s' % y)
        # input layer
        inl = p.bind('input' if rng.random() < 0.5 else 'input seed=%s' % p.tensor([2], [1.0, 2.0]), 'f')
        y = p.bind('fwd %s' % inl); p.add('obs %s' % y)
        y = p.bind('fwd %s %s' % (inl, p.tensor([1], [1.0])))
        # losses / metric: mostly accepted calls (the shapes each loss / the metric expects), plus a malformed stream
        for _ in range(4):
            kind = rng.choice(['mse', 'bce', 'ce'])
            j = p.bind(kind, 'j')
            if rng.random() < 0.6:
                s = [rng.randint(1, 4), rng.randint(1, 3)] if kind == 'ce' else [rng.randint(1, 5)]
                args = [p.tensor(s, [0.05 + 0.9 * ((3 * v + 1) % 7) / 7.0 for v in range(prod(s))], tracked=rng.random() < 0.5),
                        p.tensor(s, [float((v + 1) % 2) for v in range(prod(s))])]
            else:
                args = []
                for _ in range(2):
                    s = rng.choice([[2], [3], [2, 2], [2, 3], [], [1, 2, 2]])
                    args.append(p.tensor(s, [0.25 * (v + 1) for v in range(prod(s))]) if rng.random() < 0.9 else 'nil')
            l = p.bind('loss %s %s %s' % (j, args[0], args[1])); p.add('obs %s' % l)
            if rng.random() < 0.5:
                p.add('bp %s' % l)
                if args[0] != 'nil': p.add('obs %s' % args[0])
            m = p.bind('accuracy', 'm')
            for _ in range(rng.randint(1, 3)):
                if rng.random() < 0.6:
                    k = rng.randint(1, 5)
                    a2 = [p.tensor([k], [float(rng.randint(0, 2)) for _ in range(k)]) for _ in range(2)]
                else:
                    a2 = args
                p.add('acc %s %s %s' % (m, a2[0], a2[1])); p.add('result %s' % m)
        # optimizer: rejected calls (nil pointer, no gradient) and an accepted step followed by a second one without reset
        o = p.bind('sgd %s' % rng.choice(['nil', f2b(0.1), f2b(-1.0), f2b(0.0)]), 'o')
        p.add('upd %s nilptr' % o)
        f = p.bind('fc 2 2', 'f'); q = p.bind('weight %s 0' % f, 'p')
        p.add('upd %s %s' % (o, q))
        w = p.tensor([2], [0.5, -1.5], tracked=True); p.add('setptr %s %s' % (q, w))
        z = p.bind('mul %s %s' % (w, w)); p.add('bp %s' % z)
        p.add('upd %s %s' % (o, q)); nw = p.bind('deref %s' % q); p.add('obs %s' % nw)
        p.add('upd %s %s' % (o, q))
        if rng.random() < 0.5:
            p.add('reset %s 1' % nw); z2 = p.bind('mul %s %s' % (nw, nw)); p.add('bp %s' % z2); p.add('upd %s %s' % (o, q))
        p.tag('components')
        progs.append(p)
    return progs

# ------------------------------------------------------------------------------------------------ C10

def gen_C10(rng, tier):
    progs = []
    cnt = 60 if tier == 'quick' else 1500
    for i in range(cnt):
        # (i) every slice-taking / slice-returning entry point, mutation after the call and between forward and bp
        p = Prog('c10_a%d' % i)
        p.add('seedrng %d' % (i + 3))
        shape = rand_shape(rng, 3, 3, 1)
        n = prod(shape)
        d = p.bind('ints %s' % ints(shape), 'd')
        made = []
        for cmd in ('full T $%s %s' % (d, f2b(2.0)), 'zeros T $%s' % d, 'ones U $%s' % d,
                    'randu T $%s %s %s' % (d, f2b(0.0), f2b(1.0)), 'randn T $%s %s %s' % (d, f2b(0.0), f2b(1.0))):
            made.append(p.bind(cmd))
        ini = p.bind('init uniform nil', 'i'); made.append(p.bind('initcall %s $%s' % (ini, d)))
        x = p.bind('data %d %s' % (len(shape), nested(shape, small_vals(n))), 'x')
        t = p.bind('tensorof T $%s' % x); made.append(t)
        # mutate the caller's slices
        p.add('setint %s 0 %d' % (d, shape[0] + 1))
        p.add('setdata %s %s %s' % (x, ints([0] * len(shape)), f2b(99.0)))
        for m in made: p.add('obs %s' % m)
        # Shape() handed out
        sh = p.bind('shape %s' % t, 'd'); p.add('setint %s 0 7' % sh); p.add('obs %s' % t); p.add('nelems %s' % t)
        # Reshape / Broadcast with a caller-owned shape
        d2 = p.bind('ints %s' % ints([n]), 'd')
        r = p.bind('reshape %s $%s' % (t, d2)); p.add('setint %s 0 1' % d2)
        d3 = p.bind('ints %s' % ints([2] + shape), 'd')
        b = p.bind('broadcast %s $%s' % (t, d3)); p.add('setint %s 0 5' % d3)
        p.add('obs %s' % r); p.add('obs %s' % b)
        # At with a caller-owned index
        d4 = p.bind('ints %s' % ints([0] * len(shape)), 'd'); p.add('at %s $%s' % (t, d4))
        # Slice / Patch: mutate the index between the forward call and the back-propagation
        a0 = 0; b0 = shape[0]
        if shape[0] > 1: a0, b0 = rng.choice([(0, 1), (1, shape[0]), (0, shape[0] - 1)])
        s = p.bind('ranges %s' % ranges([(a0, b0)]), 's')
        sl = p.bind('slice %s $%s' % (t, s))
        src = p.tensor([b0 - a0] + shape[1:], [70.0 + v for v in range((b0 - a0) * prod(shape[1:]))], tracked=True)
        s2 = p.bind('ranges %s' % ranges([(a0, b0)]), 's')
        pt = p.bind('patch %s $%s %s' % (t, s2, src))
        moment = rng.choice(['before-bp', 'after-bp'])
        na, nb = (0, shape[0]) if (a0, b0) != (0, shape[0]) else (0, 0)
        if shape[0] > 1 and rng.random() < 0.5: na, nb = (b0 - 1, b0) if b0 - a0 > 1 else ((a0 + 1) % shape[0], (a0 + 1) % shape[0] + 1)
        if moment == 'before-bp':
            p.add('setrange %s 0 %d:%d' % (s, na, nb)); p.add('setrange %s 0 %d:%d' % (s2, na, nb))
        z = p.bind('add %s %s' % (p.bind('sumalong %s 0' % sl), p.bind('sumalong %s 0' % pt)))
        p.add('bp %s' % z)
        if moment == 'after-bp':
            p.add('setrange %s 0 %d:%d' % (s, na, nb)); p.add('setrange %s 0 %d:%d' % (s2, na, nb))
        for m in (t, src, sl, pt): p.add('obs %s' % m)
        p.tag('entry-points', moment, 'index-mutated-between-forward-and-bp' if moment == 'before-bp' else 'index-mutated-after-bp')
        progs.append(p)
        # Concat with a caller-owned tensor list, mutated between the call and the back-propagation
        p = Prog('c10_c%d' % i)
        shape = rand_shape(rng, 2, 3, 1)
        dim = rng.randrange(len(shape))
        ts = []
        for j in range(4):
            sh = list(shape); sh[dim] = rng.randint(1, 3)
            ts.append(p.tensor(sh, [rng.uniform(-1, 1) for _ in range(prod(sh))], tracked=True))
        l = p.bind('tensors %s,%s,%s' % (ts[0], ts[1], ts[2]), 'l')
        c = p.bind('concat $%s %d' % (l, dim))
        p.add('settensor %s %d %s' % (l, rng.randrange(3), rng.choice([ts[3], 'nil', ts[0]])))
        if rng.random() < 0.5: p.add('settensor %s %d %s' % (l, rng.randrange(3), ts[3]))
        p.add('obs %s' % c)
        w = p.bind('mul %s %s' % (c, c))
        p.add('bp %s' % w)
        for m in ts: p.add('obs %s' % m)
        p.tag('concat-list')
        progs.append(p)
    # (ii) no call changes an existing tensor: observe everything after every call
    for i in range(cnt):
        p = Prog('c10_r%d' % i)
        shape = rand_shape(rng, 2, 3, 0)
        n = prod(shape)
        live = [p.tensor(shape, [rng.uniform(0.5, 1.5) for _ in range(n)], tracked=rng.random() < 0.7) for _ in range(2)]
        def snap():
            for t in live: p.add('obs %s' % t)
        for s in range(rng.randint(4, 9)):
            a, b = rng.choice(live), rng.choice(live)
            k = rng.random()
            if k < 0.3: r = p.bind('%s %s' % (rng.choice(SAFE_UN + ['exp']), a))
            elif k < 0.6: r = p.bind('%s %s %s' % (rng.choice(['add', 'sub', 'mul']), a, b))
            elif k < 0.7 and shape:
                r = p.bind('patch %s %s %s' % (a, ranges([(0, 1)]), p.bind('slice %s %s' % (b, ranges([(0, 1)])))))
            elif k < 0.8 and shape: r = p.bind('sumalong %s 0' % a); live.append(r); snap(); continue
            elif k < 0.9: p.add('bp %s' % a); snap(); continue
            else: r = p.bind('scale %s %s' % (a, f2b(-2.0)))
            if shape == [] or True:
                live.append(r)
            snap()
        # optimizer step: the previous tensor stays as it was
        f = p.bind('fc 1 1', 'f'); q = p.bind('weight %s 0' % f, 'p')
        w = p.tensor(shape, [1.0] * n, tracked=True); p.add('setptr %s %s' % (q, w))
        y = p.bind('mul %s %s' % (w, live[0])) if True else None
        p.add('bp %s' % y)
        o = p.bind('sgd %s' % f2b(0.5), 'o'); p.add('upd %s %s' % (o, q))
        live.append(w); snap()
        p.tag('no-mutation-of-existing')
        progs.append(p)
    # (iv) chains of shape operations on tensors of rank 3-5: every result is the operand of further shape
    # operations (so whatever a result's dimension list shares with its operand, or keeps as spare capacity, is carried
    # along), and after every call all tensors so far are observed again; finally a back-propagation, observed again
    import fwd as _fwd
    for i in range(40 if tier == 'quick' else 1200):
        p = Prog('c10_s%d' % i)
        r0 = rng.randint(3, 5)
        shape = [rng.randint(1, 3) for _ in range(r0)]
        while prod(shape) > 200: shape[rng.randrange(r0)] = 1
        live = [(p.tensor(shape, [float(v + 1) for v in range(prod(shape))], tracked=True), shape)]
        def snap():
            for t, _ in live[-7:]: p.add('obs %s' % t)
        for step in range(rng.randint(4, 10)):
            t, sh = rng.choice([e for e in live if e[1] is not None][-3:])
            r = len(sh)
            ops = ['unsqueeze', 'broadcast']
            if r >= 1: ops += ['along', 'along', 'flatten', 'slice', 'reshape', 'concat-fork', 'patch-fork']
            if r >= 2: ops += ['transpose']
            if 1 in sh: ops += ['squeeze']
            o = rng.choice(ops)
            if o == 'unsqueeze':
                d = rng.randint(0, r); nt = p.bind('unsqueeze %s %d' % (t, d)); nsh = sh[:d] + [1] + sh[d:]
            elif o == 'squeeze':
                d = rng.choice([j for j, v in enumerate(sh) if v == 1]); nt = p.bind('squeeze %s %d' % (t, d)); nsh = sh[:d] + sh[d + 1:]
            elif o == 'along':
                d = rng.randrange(r); nt = p.bind('%s %s %d' % (rng.choice(['sumalong', 'maxalong', 'minalong', 'avgalong', 'meanalong']), t, d)); nsh = sh[:d] + sh[d + 1:]
            elif o == 'flatten':
                d = rng.randrange(r); nt = p.bind('flatten %s %d' % (t, d)); nsh = sh[:d] + [prod(sh[d:])]
            elif o == 'transpose':
                nt = p.bind('transpose %s' % t); nsh = sh[:-2] + [sh[-1], sh[-2]]
            elif o == 'reshape':
                nsh = rng.choice(_fwd.factorizations(prod(sh), 5)); nt = p.bind('reshape %s %s' % (t, ints(nsh) if nsh else '-'))
            elif o == 'slice':
                idx = _fwd.rand_index(rng, sh); nt = p.bind('slice %s %s' % (t, ranges(idx) if idx else '-')); nsh = _fwd.sliced_shape(sh, idx)
            elif o == 'concat-fork':
                # two concatenations that both start from the same (possibly already concatenated) tensor
                d = rng.randrange(r)
                extra = []
                for k in range(2):
                    es = list(sh); es[d] = rng.randint(1, 2)
                    extra.append(p.tensor(es, [100.0 * (k + 1) + v for v in range(prod(es))]))
                c1 = p.bind('concat %s,%s %d' % (t, extra[0], d))
                c2 = p.bind('concat %s,%s %d' % (t, extra[1], d))
                nsh = list(sh); nsh[d] = sh[d] + 1
                e3 = list(sh); e3[d] = 1
                nt = p.bind('concat %s,%s %d' % (t, p.tensor(e3, [7.0] * prod(e3)), d))
                live.append((c1, None))
                live.append((c2, None))
            elif o == 'patch-fork':
                blk = [rng.randint(1, v) for v in sh]
                srcs = [p.tensor(blk, [200.0 * (k + 1) + v for v in range(prod(blk))]) for k in range(2)]
                idx = [(0, b) for b in blk]
                p1 = p.bind('patch %s %s %s' % (t, ranges(idx), srcs[0]))
                nt = p.bind('patch %s %s %s' % (t, ranges(idx), srcs[1])); nsh = list(sh)
                live.append((p1, None))
            else:
                lead = [rng.randint(1, 2) for _ in range(rng.randint(0, 2))]
                nsh = lead + [(rng.randint(2, 3) if v == 1 and rng.random() < 0.5 else v) for v in sh]
                if prod(nsh) > 400: nsh = list(sh)
                nt = p.bind('broadcast %s %s' % (t, ints(nsh) if nsh else '-'))
            live.append((nt, nsh))
            snap()
        last, lsh = live[-1]
        p.add('bp %s' % last)
        for t, _ in live: p.add('obs %s' % t)
        p.tag('shape-op-chains', 'rank%d' % r0)
        progs.append(p)
    # (iii) programs of the other properties' generators, instrumented: after every call every tensor bound so
    # far is observed again (the model is immutable by construction, so any in-place change shows up)
    import fwd, grad, comp
    pool = []
    sub = 'quick'
    for g in (fwd.gen_C04, fwd.gen_C06, fwd.gen_C03, fwd.gen_C05, grad.gen_C01, grad.gen_C02, grad.gen_C07, comp.gen_C16, comp.gen_C13, comp.gen_C15, comp.gen_C14):
        got = g(rng, sub)
        rng.shuffle(got)
        pool += got[:(40 if tier == 'quick' else 300)]
    for q in pool:
        if len(q.lines) > 120 or any(l.startswith('par') for l in q.lines):
            continue
        p = Prog('c10_i_' + q.name)
        bound = []
        for ln in q.lines:
            p.add(ln)
            toks = ln.split(' ')
            if len(toks) > 2 and toks[1] == '=' and toks[2] not in ('ints', 'ranges', 'tensors', 'data', 'init', 'fc', 'input', 'relu', 'sigmoid',
                    'leaky', 'softmax', 'mse', 'bce', 'ce', 'accuracy', 'sgd', 'weight', 'shape', 'zero') and not (toks[2] == 'tanh' and len(toks) == 3):
                if toks[0] not in bound: bound.append(toks[0])
            if toks[0] in ('obs', 'equals', 'nelems', 'at') or (len(toks) > 2 and toks[2] == 'tensorof'):
                continue
            for b in bound[-8:]:
                p.add('obs %s' % b)
        p.tag('instrumented')
        progs.append(p)
    return progs
