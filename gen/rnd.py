"""Generators and extra checks for C18 (initializers / random constructors) and C20 (concurrency)."""
import os, math, random, re
from lib import *
from grad import SAFE_UN
import runner

KINDS = ['full', 'uniform', 'normal', 'heuniform', 'henormal', 'xavieruniform', 'xaviernormal']

def init_line(rng, kind, default=False):
    """-> (command, expected family, params) where family in const/uniform/normal"""
    if kind == 'full':
        if default: return 'init full nil', ('const', 0.0, 0.0)
        v = rng.choice([0.0, 1.5, -2.0]); return 'init full %s' % f2b(v), ('const', v, 0.0)
    if kind == 'uniform':
        if default: return 'init uniform nil', ('uniform', -0.05, 0.05)
        lo = rng.choice([-1.0, 0.0, 2.0]); hi = lo + rng.choice([0.5, 1.0, 3.0])
        return 'init uniform %s %s' % (f2b(lo), f2b(hi)), ('uniform', lo, hi)
    if kind == 'normal':
        if default: return 'init normal nil', ('normal', 0.0, 0.05)
        mu = rng.choice([-1.0, 0.0, 2.0]); sg = rng.choice([0.5, 1.0, 3.0])
        return 'init normal %s %s' % (f2b(mu), f2b(sg)), ('normal', mu, sg)
    fi, fo = rng.randint(1, 6), rng.randint(1, 6)
    if kind == 'heuniform':
        r = math.sqrt(6.0 / fi); return 'init heuniform %d' % fi, ('uniform', -r, r)
    if kind == 'henormal':
        return 'init henormal %d' % fi, ('normal', 0.0, math.sqrt(2.0 / fi))
    if kind == 'xavieruniform':
        r = math.sqrt(6.0 / (fi + fo)); return 'init xavieruniform %d %d' % (fi, fo), ('uniform', -r, r)
    return 'init xaviernormal %d %d' % (fi, fo), ('normal', 0.0, math.sqrt(2.0 / (fi + fo)))

MOMENT_N = 4000

def gen_C18(rng, tier):
    progs = []
    cnt = 150 if tier == 'quick' else 3000
    for i in range(cnt):
        p = Prog('c18_%d' % i)
        p.add('seedrng %d' % rng.randrange(1, 10 ** 6))
        for _ in range(3):
            kind = rng.choice(KINDS)
            cmd, fam = init_line(rng, kind, default=(rng.random() < 0.25 and kind in ('full', 'uniform', 'normal')))
            ini = p.bind(cmd, 'i')
            # several calls in any order: draws are fresh, shape and tracking as requested
            made = []
            for _ in range(rng.randint(1, 3)):
                shape = rand_shape(rng, 4, 3, 0)
                t = p.bind('initcall %s %s' % (ini, ints(shape))); p.add('obs %s' % t)
                made.append((t, shape))
            # the same shape twice: two distinct tensor objects (own gradient contexts) — back-propagating through
            # one leaves the other without a gradient
            if rng.random() < 0.5 and made:
                t, shape = made[-1]
                t2 = p.bind('initcall %s %s' % (ini, ints(shape))); p.add('obs %s' % t2)
                z = p.bind('mul %s %s' % (t, t)); p.add('bp %s' % z)
                p.add('obs %s' % t); p.add('obs %s' % t2)
                p.tag('same-shape-twice')
            p.tag(kind)
        # the tensor-level random constructors
        shape = rand_shape(rng, 4, 3, 0)
        lo = rng.choice([-2.0, 0.0, 1.0]); hi = lo + rng.choice([0.25, 1.0, 4.0])
        t = p.bind('randu %s %s %s %s' % (rng.choice(['T', 'U', 'nil']), ints(shape), f2b(lo), f2b(hi))); p.add('obs %s' % t)
        t = p.bind('randn %s %s %s %s' % (rng.choice(['T', 'U', 'nil']), ints(shape), f2b(rng.choice([-1.0, 0.0, 3.0])), f2b(rng.choice([0.1, 1.0, 2.0])))); p.add('obs %s' % t)
        progs.append(p)
    # parameters that are no distribution parameters at all (NaN, infinite, reversed, zero / negative widths): rejected by the
    # constructors and by RandU / RandN, whatever the comparison is written like
    BADF = [float('nan'), float('inf'), float('-inf'), 0.0, -1.0, 1.0]
    for i in range(30 if tier == 'quick' else 400):
        p = Prog('c18_params%d' % i)
        p.add('seedrng %d' % rng.randrange(1, 10 ** 6))
        a, b = rng.choice(BADF), rng.choice(BADF)
        ini = p.bind('init uniform %s %s' % (f2b(a), f2b(b)), 'i')
        t = p.bind('initcall %s %s' % (ini, ints([2, 2]))); p.add('obs %s' % t)
        a2, b2 = rng.choice(BADF + [2.0]), rng.choice(BADF)
        ini2 = p.bind('init normal %s %s' % (f2b(a2), f2b(b2)), 'i')
        t = p.bind('initcall %s %s' % (ini2, ints([3]))); p.add('obs %s' % t)
        t = p.bind('randu %s %s %s %s' % (rng.choice(['T', 'U', 'nil']), ints([2]), f2b(rng.choice(BADF)), f2b(rng.choice(BADF)))); p.add('obs %s' % t)
        t = p.bind('randn %s %s %s %s' % (rng.choice(['T', 'U', 'nil']), ints([2]), f2b(rng.choice(BADF)), f2b(rng.choice(BADF)))); p.add('obs %s' % t)
        p.tag('parameter-corners')
        progs.append(p)
    # large draws for the moment tests (extra check below); two calls per initializer
    for k, kind in enumerate(KINDS):
        for rep in range(2 if tier == 'quick' else 6):
            p = Prog('c18_moments_%s_%d' % (kind, rep))
            p.add('seedrng %d' % rng.randrange(1, 10 ** 6))
            cmd, fam = init_line(rng, kind, default=(rep == 1 and kind in ('full', 'uniform', 'normal')))
            ini = p.bind(cmd, 'i')
            a = p.bind('initcall %s %d' % (ini, MOMENT_N)); p.add('obs %s' % a)
            b = p.bind('initcall %s %d' % (ini, MOMENT_N)); p.add('obs %s' % b)
            p.moments = fam
            p.tag('moments-' + kind)
            progs.append(p)
    return progs

def extra_C18(rng, tier, progs, results):
    """support, sample moments (6-sigma bands) and freshness, measured on the real code's output"""
    info = {'moment_tests': 0, 'samples_per_test': MOMENT_N}
    viol = []
    for r in results:
        fam = getattr(r.prog, 'moments', None)
        if not fam or not r.h:
            continue
        datas = []
        for l in r.h:
            m = re.search(r' data=(\S+)', l)
            if m and ' tr=' in l:
                datas.append([b2f(v) for v in m.group(1).split(',')])
        if len(datas) != 2 or any(len(d) != MOMENT_N for d in datas):
            viol.append(('%s: expected two tensors of %d draws' % (r.prog.name, MOMENT_N), r)); continue
        kind, a, b = fam
        for d in datas:
            info['moment_tests'] += 1
            n = len(d)
            mean = sum(d) / n
            var = sum((x - mean) ** 2 for x in d) / (n - 1)
            bad = None
            if kind == 'const':
                if any(x != a for x in d): bad = 'Full does not hold the configured constant'
            elif kind == 'uniform':
                emean, evar = (a + b) / 2, (b - a) ** 2 / 12
                if not all(a <= x < b for x in d): bad = 'draw outside [lower, upper)'
                elif abs(mean - emean) > 6 * math.sqrt(evar / n): bad = 'sample mean %g vs %g' % (mean, emean)
                elif abs(var - evar) > 6 * evar * math.sqrt(0.8 / n) + 1e-12: bad = 'sample variance %g vs %g' % (var, evar)
                elif min(d) > a + 0.05 * (b - a) or max(d) < b - 0.05 * (b - a): bad = 'support not covered'
            else:
                emean, evar = a, b * b
                if abs(mean - emean) > 6 * math.sqrt(evar / n): bad = 'sample mean %g vs %g' % (mean, emean)
                elif abs(var - evar) > 6 * evar * math.sqrt(2.0 / n): bad = 'sample variance %g vs %g' % (var, evar)
            if not bad and kind != 'const' and len(set(d)) < 0.99 * n: bad = 'repeated values inside one tensor'
            if bad:
                viol.append(('%s: %s' % (r.prog.name, bad), r))
        if fam[0] != 'const' and datas[0] == datas[1]:
            viol.append(('%s: two consecutive Init calls returned identical draws' % r.prog.name, r))
    paths = []
    for k, (msg, r) in enumerate(viol[:3]):
        path = os.path.join(runner.VERIF, 'replays', 'C18-moments-%d.case' % k)
        os.makedirs(os.path.dirname(path), exist_ok=True)
        with open(path, 'w') as fh:
            fh.write('# property C18: %s\n' % msg)
            fh.write(r.prog.text())
        paths.append(path)
    info['moment_failures'] = [m for m, _ in viol]
    return {'violations': paths, 'info': info}

# ------------------------------------------------------------------------------------------------ C20

def thread_body(p, rng, shared, tid, kind):
    """lines of one thread: forward work on shared tensors, graph building on shared tracked parameters,
       and a private graph (own tracked leaves + shared UNTRACKED data) that is back-propagated"""
    def nm(s): return 'th%d_%s' % (tid, s)
    k = [0]
    def bind(cmd):
        k[0] += 1
        n = nm('v%d' % k[0]); p.add('%s = %s' % (n, cmd)); return n
    W, B, X, U, f, a, j, shape = shared['W'], shared['B'], shared['X'], shared['U'], shared['f'], shared['a'], shared['j'], shared['shape']
    # forward programs over shared tensors (incl. shared tracked parameters: graph construction only)
    y = bind('fwd %s %s' % (f, X)); p.add('obs %s' % y)
    y2 = bind('fwd %s %s' % (a, y)); p.add('obs %s' % y2)
    g1 = bind('mul %s %s' % (W, B)); g2 = bind('%s %s' % (rng.choice(SAFE_UN), g1)); p.add('obs %s' % g2)
    s = bind('sumalong %s 0' % U); p.add('obs %s' % s)
    p.add('sum %s' % U); p.add('at %s %s' % (U, ints([0] * len(shape))))
    t = bind('transpose %s' % X); m = bind('matmul %s %s' % (X, t)); p.add('obs %s' % m)
    # private graph sharing only untracked tensors with the other threads
    own = bind('tensorof T %d %s' % (len(shape), nested(shape, [rng.uniform(0.5, 1.5) for _ in range(prod(shape))])))
    z = bind('mul %s %s' % (own, U)); z = bind('add %s %s' % (z, own)); z = bind('tanh %s' % z)
    p.add('bp %s' % z); p.add('obs %s' % own)
    # graphs in which the shared UNTRACKED tensor is itself an operand next to a private tracked one
    for kind in ('elmax', 'elmin', 'concat', 'patch', 'sub'):
        o2 = bind('tensorof T %d %s' % (len(shape), nested(shape, [rng.uniform(0.5, 1.5) for _ in range(prod(shape))])))
        if kind == 'concat': z2 = bind('concat %s,%s,%s 0' % (o2, U, X))
        elif kind == 'patch':
            blk = bind('slice %s 0:1' % o2)
            z2 = bind('patch %s 0:1 %s' % (U, blk))
        else: z2 = bind('%s %s %s' % (kind, o2, U))
        p.add('bp %s' % z2); p.add('obs %s' % o2)
    # the SAME private tracked tensor more than once among the operands of one call (every back edge of the result then
    # points at one tensor: its gradient is accumulated several times within a single BackPropagate)
    o3 = bind('tensorof T %d %s' % (len(shape), nested(shape, [rng.uniform(0.5, 1.5) for _ in range(prod(shape))])))
    h3 = bind('scale %s %s' % (o3, f2b(0.5)))
    rep = rng.choice(['concat', 'concat', 'elmax', 'elmin', 'patch', 'mul'])
    if rep == 'concat': z3 = bind('concat %s %d' % (','.join([h3] * rng.randint(2, 5)), rng.randrange(len(shape))))
    elif rep == 'patch': z3 = bind('patch %s %s %s' % (h3, ranges([(0, d) for d in shape]), h3))
    else: z3 = bind('%s %s %s' % (rep, h3, h3))
    p.add('bp %s' % z3); p.add('obs %s' % o3); p.add('obs %s' % h3)
    # the SHARED activation object on a private input whose shape differs from thread to thread
    shp = [tid % 3 + 1, shape[1] + tid % 2]
    xs = bind('tensorof U 2 %s' % nested(shp, [rng.uniform(-1, 1) for _ in range(prod(shp))]))
    ys = bind('fwd %s %s' % (a, xs)); p.add('obs %s' % ys)
    # a private tensor whose blocks cancel catastrophically: summing reducers have ONE defined order
    cb = bind('tensorof U 2 %s' % nested([4, 2], [1e16, 2.0, 3.0, 1.0, -1e16, 4.0, 5.0, 1.0]))
    p.add('sum %s' % cb); p.add('mean %s' % cb); sb = bind('sumalong %s 0' % cb); p.add('obs %s' % sb)
    # random constructors concurrently (values are not compared in this mode, shapes are)
    r = bind('randu U 3,2 %s %s' % (f2b(0.0), f2b(1.0))); p.add('nelems %s' % r)
    r = bind('randn T 4 %s %s' % (f2b(0.0), f2b(1.0))); d = nm('d'); p.add('%s = shape %s' % (d, r))
    # a loss on shared untracked data
    l = bind('loss %s %s %s' % (j, shared['yp'], shared['yt'])); p.add('obs %s' % l)

def gen_C20(rng, tier):
    progs = []
    cnt = 40 if tier == 'quick' else 600
    for i in range(cnt):
        p = Prog('c20_%d' % i)
        shape = [rng.randint(1, 3), rng.randint(1, 3)]
        n = prod(shape)
        fo = rng.randint(1, 3)
        f = p.bind('fc %d %d' % (shape[1], fo), 'f')
        pw, pb = p.bind('weight %s 0' % f, 'p'), p.bind('weight %s 1' % f, 'p')
        W = p.tensor([fo], [rng.uniform(-1, 1) for _ in range(fo)], tracked=True)
        B = p.tensor([fo], [rng.uniform(-1, 1) for _ in range(fo)], tracked=True)
        p.add('setptr %s %s' % (pw, W)); p.add('setptr %s %s' % (pb, B))
        X = p.tensor(shape, [rng.uniform(-1, 1) for _ in range(n)])
        U = p.tensor(shape, [rng.uniform(0.5, 1.5) for _ in range(n)])
        a = p.bind(rng.choice(['relu', 'sigmoid', 'tanh', 'leaky nil', 'softmax 1']), 'a')
        j = p.bind('mse', 'j')
        yp = p.tensor([3], [0.2, 0.5, 0.9]); yt = p.tensor([3], [0.0, 1.0, 1.0])
        shared = dict(W=W, B=B, X=X, U=U, f=f, a=a, j=j, shape=shape, yp=yp, yt=yt)
        nthreads = rng.choice([2, 3, 4, 8, 16])
        if i % 2 == 0:
            # random constructors BEFORE the goroutines start: here the values are compared too (raw draws replayed from the seed)
            p.add('seedrng %d' % rng.randrange(1, 10 ** 6))
            r0 = p.bind('randu U %s %s %s' % (ints([2, 3]), f2b(-1.0), f2b(2.0))); p.add('obs %s' % r0)
            r1 = p.bind('randn T %s %s %s' % (ints([4]), f2b(1.0), f2b(0.5))); p.add('obs %s' % r1)
            p.tag('sequential-draws-first')
        if i % 3 == 1:
            # calls the library rejects, before the goroutines start: an error path must leave nothing behind that the
            # concurrent calls could trip over
            error_prelude(p, rng)
            p.tag('after-rejected-calls')
        p.add('par')
        for tid in range(nthreads):
            p.add('thread')
            thread_body(p, rng, shared, tid, None)
            p.add('endthread')
        p.add('endpar')
        # afterwards everything shared is as before
        for t in (W, B, X, U): p.add('obs %s' % t)
        p.tag('threads%d' % nthreads)
        progs.append(p)
    # first use of a FRESH shared tensor of a larger size (element counts around 256 / 1024: thresholds of lazily built
    # or blocked representations), by all goroutines at once: every goroutine's first call on the tensor is concurrent
    # with the others' — each operation kind comes first in some goroutine
    for i in range(20 if tier == 'quick' else 300):
        p = Prog('c20_big%d' % i)
        shape = rng.choice([[16, 16], [48, 40], [32, 32], [33, 31], [1100], [3, 400], [2, 16, 9], [255], [257, 1]])
        n = prod(shape)
        S = p.tensor(shape, [float((7 * v) % 23) * 0.125 - 1.0 for v in range(n)], tracked=(i % 3 == 0))
        r = len(shape)
        ops = ['transpose %s' % S if r >= 2 else 'unsqueeze %s 0' % S, 'reshape %s %d' % (S, n), 'flatten %s 0' % S,
               'unsqueeze %s %d' % (S, r), 'sumalong %s 0' % S, 'maxalong %s %d' % (S, r - 1), 'scale %s %s' % (S, f2b(0.5)),
               'slice %s 0:1' % S, 'broadcast %s %s' % (S, ints([2] + shape)), 'add %s %s' % (S, S), 'mul %s %s' % (S, S)]
        if r == 2: ops.append('matmul %s %s' % (S, 'TR'))
        nthreads = rng.choice([2, 4, 8, 16])
        p.add('par')
        for tid in range(nthreads):
            p.add('thread')
            rot = ops[tid % len(ops):] + ops[:tid % len(ops)]
            k = 0
            for o in rot[:rng.randint(4, len(rot))]:
                k += 1
                if 'TR' in o:
                    tname = 'th%d_tr' % tid
                    p.add('%s = transpose %s' % (tname, S)); o = o.replace('TR', tname)
                nm = 'th%d_b%d' % (tid, k)
                p.add('%s = %s' % (nm, o)); p.add('obs %s' % nm)
            p.add('sum %s' % S); p.add('nelems %s' % S)
            p.add('endthread')
        p.add('endpar')
        p.add('obs %s' % S)
        p.tag('fresh-large-shared', 'threads%d' % nthreads, 'elements%d' % n)
        progs.append(p)
    return progs


def extra_C20(rng, tier, progs, results):
    """fact extraction on the current source: the footprint argument of QeepProps/C20.lean assumes that the library
       keeps no unsynchronised mutable package-level state"""
    import subprocess, json
    info = {}
    viol = []
    ex = os.path.join(runner.BUILD, 'extract-%d' % os.getpid())
    r = subprocess.run(['go', 'build', '-o', ex, '.'], cwd=os.path.join(runner.VERIF, 'extract'), env=runner.GOENV, capture_output=True, text=True)
    if r.returncode != 0:
        info['extract_error'] = (r.stdout + r.stderr)[-500:]
        return {'violations': [], 'info': info}
    out = subprocess.run([ex, '/repo'], capture_output=True, text=True).stdout
    try:
        os.remove(ex)
    except OSError:
        pass
    try:
        facts = json.loads(out)
    except Exception:
        info['extract_error'] = out[-300:]
        return {'violations': [], 'info': info}
    info['facts'] = {k: facts[k] for k in ('package_vars', 'mutable_package_vars', 'go_statements', 'packages_importing_sync')}
    unsync = [v for v in facts['mutable_package_vars'] if v.rsplit('.', 1)[0] not in facts['packages_importing_sync']]
    raced = any(getattr(r, 'race_report', None) for r in results)
    if unsync and not raced:
        path = os.path.join(runner.VERIF, 'replays', 'C20-facts.txt')
        os.makedirs(os.path.dirname(path), exist_ok=True)
        with open(path, 'w') as fh:
            fh.write('property C20: the source now has mutable package-level state without synchronisation: %s\n' % unsync)
            fh.write('the footprint argument (QeepProps/C20.lean: operations write only freshly allocated nodes / their own graph) assumes there is none;\n')
            fh.write('the race-detector run of this check found no failing schedule.\n')
        viol.append((path, 'no-failing-input-found'))
    return {'violations': viol, 'info': info}
