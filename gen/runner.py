"""Run programs through the Go harness (real code) and the Lean driver (model) and compare outcome streams."""
import os, re, subprocess, sys, math, concurrent.futures, time
from lib import b2f

VERIF = os.path.dirname(os.path.dirname(os.path.abspath(__file__)))
BUILD = os.path.join(VERIF, '.build')
# one binary per check process: concurrent checks (different properties, seeds or tiers) must not replace each
# other's harness while it runs; the files are removed when the process ends
HARNESS = os.path.join(BUILD, 'harness-%d' % os.getpid())
HARNESS_RACE = os.path.join(BUILD, 'harness-race-%d' % os.getpid())
import atexit
def _cleanup():
    # only the process that created the names removes them (worker processes share the module globals)
    if os.getpid() == _OWNER:
        for f in (HARNESS, HARNESS_RACE):
            try:
                os.remove(f)
            except OSError:
                pass
_OWNER = os.getpid()
atexit.register(_cleanup)
DRIVER = os.path.join(VERIF, 'lean', '.lake', 'build', 'bin', 'qeep-driver')
GOENV = dict(os.environ, GOFLAGS='-mod=mod', GOPROXY='off', GOSUMDB='off', GOTOOLCHAIN='local')

REL_TOL = 1e-9

def build_harness(race=False):
    """rebuild the harness against /repo's current working tree, hooks on"""
    os.makedirs(BUILD, exist_ok=True)
    hdir = os.path.join(VERIF, 'harness')
    subprocess.run(['cp', '/repo/go.sum', os.path.join(hdir, 'go.sum')], check=True)
    out = HARNESS_RACE if race else HARNESS
    if os.path.exists(out):
        os.remove(out)
    cmd = ['go', 'build', '-tags', 'verif'] + (['-race'] if race else []) + ['-o', out, '.']
    r = subprocess.run(cmd, cwd=hdir, env=GOENV, capture_output=True, text=True)
    return r.returncode == 0, r.stdout + r.stderr

def ensure_driver():
    if not os.path.exists(DRIVER):
        r = subprocess.run(['lake', 'build', 'qeep-driver'], cwd=os.path.join(VERIF, 'lean'), capture_output=True, text=True)
        if r.returncode != 0:
            return False, r.stdout + r.stderr
    return True, ''

def _run(binary, text, args=(), env=None, timeout=900):
    try:
        r = subprocess.run([binary] + list(args), input=text, capture_output=True, text=True, env=env, timeout=timeout)
        return r.returncode, r.stdout, r.stderr
    except subprocess.TimeoutExpired as e:
        return -9, (e.stdout or b'').decode() if isinstance(e.stdout, bytes) else (e.stdout or ''), 'process timeout'

def split_output(out):
    """-> list of (name, [lines]) in order; an unterminated last program is marked by a trailing None"""
    progs = []
    cur = None
    for line in out.split('\n'):
        if line.startswith('prog '):
            cur = [line[5:].split(' ')[0], [], False]
            progs.append(cur)
        elif line == 'end':
            if cur is not None:
                cur[2] = True
            cur = None
        elif cur is not None and line != '':
            cur[1].append(line)
    return [(n, ls, done) for n, ls, done in progs]

def inject_raw(prog_lines, hlines):
    """append the harness' raw=… payload to the matching command line for the driver"""
    res = []
    for i, l in enumerate(prog_lines):
        if i < len(hlines):
            m = re.search(r' (raw=\S+)', hlines[i])
            if m:
                l = l + ' ' + m.group(1)
        res.append(l)
    return res

# Programs that go through libm (exp, log, pow, trig, hyperbolic, sqrt) are compared within a relative tolerance
# (Go's math package and glibc differ in the last ulp; cancellation can amplify that, hence the absolute floor);
# all other programs only use + - * / and comparisons in the same order as the code, so they are compared exactly.

EXACT_REL = 4e-13

LIBM_CMDS = {'exp', 'log', 'sin', 'cos', 'tan', 'sinh', 'cosh', 'tanh', 'pow', 'std', 'var', 'stdalong', 'varalong',
             'sigmoid', 'softmax', 'bce', 'ce', 'mse'}

def uses_libm(lines):
    cmds = set()
    for l in lines:
        toks = l.split(' ')
        has_dst = len(toks) > 2 and toks[1] == '='
        cmd = toks[2] if has_dst else toks[0]
        cmds.add(cmd)
        if cmd == 'zero':
            # `zero tanh`, `zero sigmoid`, … : the zero value of a component struct is that component
            args = toks[3:] if has_dst else toks[1:]
            if args: cmds.add(args[0])
    if cmds & LIBM_CMDS:
        return True
    # backward rules that go through libm themselves: Div (b.Pow(2))
    if 'bp' in cmds and 'div' in cmds:
        return True
    return False

def _floats_close(a, b, exact=False):
    if math.isnan(a) or math.isnan(b):
        return math.isnan(a) and math.isnan(b)
    if math.isinf(a) or math.isinf(b):
        return a == b
    if exact == 'bits':
        # programs tagged `bit-exact`: every value is the result of single correctly rounded operations
        return a == b
    if exact:
        # libm-free programs: bit-equal on the unchanged tree; a purely relative slack of ~2000 ulps (no absolute floor,
        # so tiny magnitudes are still resolved) keeps a harmless re-association of a sum from being reported
        return a == b or abs(a - b) <= EXACT_REL * max(abs(a), abs(b))
    return abs(a - b) <= REL_TOL * max(1.0, abs(a), abs(b))

def _cmp_flist(x, y, exact=False):
    if x == y:
        return True
    xs, ys = x.split(','), y.split(',')
    if len(xs) != len(ys):
        return False
    try:
        return all(_floats_close(b2f(p), b2f(q), exact) for p, q in zip(xs, ys))
    except Exception:
        return False

def _cmp_token(x, y, exact=False):
    if x == y:
        return True
    if '=' not in x or '=' not in y:
        return False
    kx, vx = x.split('=', 1)
    ky, vy = y.split('=', 1)
    if kx != ky:
        return False
    if kx == 'raw':
        return True
    if kx in ('data', 'v'):
        return _cmp_flist(vx, vy, exact)
    if kx == 'grad':
        if vx == 'nil' or vy == 'nil':
            return vx == vy
        px, py = vx.split(';'), vy.split(';')
        return len(px) == len(py) == 2 and px[0] == py[0] and _cmp_token(px[1], py[1], exact)
    return False

def cmp_line(h, d, exact=False):
    """compare one harness outcome line with one driver outcome line"""
    ht = [t for t in h.split(' ') if not t.startswith('raw=')]
    dt = [t for t in d.split(' ') if not t.startswith('raw=')]
    if len(ht) != len(dt):
        return False
    return all(_cmp_token(a, b, exact) for a, b in zip(ht, dt))

def compare(hlines, dlines, exact=False):
    """-> index of first differing line or None"""
    n = max(len(hlines), len(dlines))
    for i in range(n):
        if i >= len(hlines) or i >= len(dlines) or not cmp_line(hlines[i], dlines[i], exact):
            return i
    return None

class Result:
    def __init__(self, prog):
        self.prog = prog
        self.h = None          # harness lines
        self.d = None          # driver lines (sum mode)
        self.dm = None         # driver lines (mean mode), when tried
        self.diff = None       # first differing line index vs sum model
        self.diff_mean = None
        self.note = ''
    @property
    def ok(self):
        return self.h is not None and self.d is not None and self.diff is None
    @property
    def known_d2(self):
        return (not self.ok) and self.h is not None and self.dm is not None and self.diff_mean is None

def run_batch(progs, race=False, env_extra=None, cmd_timeout_ms=None):
    """run one shard; returns list of Result"""
    res = [Result(p) for p in progs]
    text = ''.join(p.text() for p in progs)
    env = dict(os.environ)
    env.setdefault('GOMEMLIMIT', '2GiB')
    if cmd_timeout_ms is not None:
        env['HARNESS_CMD_TIMEOUT_MS'] = str(cmd_timeout_ms)
    if env_extra:
        env.update(env_extra)
    rc, out, err = _run(HARNESS_RACE if race else HARNESS, text, env=env)
    hp = split_output(out)
    byname = {}
    for n, ls, done in hp:
        byname[n] = (ls, done)
    crashed = []
    for r in res:
        got = byname.get(r.prog.name)
        if got is None or not got[1]:
            crashed.append(r)
            r.note = 'harness died (rc=%s) %s' % (rc, err[-400:])
            r.h = got[0] if got else []
        else:
            r.h = got[0]
    sid = id(res)
    for r in res:
        r.shard_id = sid
    if race and ('DATA RACE' in err):
        for r in res:
            r.note += ' RACE-REPORT-IN-SHARD'
        res[0].race_report = err[:6000]
    # rerun crashed programs alone, to attribute the crash
    if crashed and len(progs) > 1:
        for r in crashed:
            sub = run_batch([r.prog], race=race, env_extra=env_extra, cmd_timeout_ms=cmd_timeout_ms)[0]
            r.h, r.note = sub.h, sub.note
    # driver input with raw payloads
    dtext = []
    for r in res:
        head = 'prog ' + r.prog.name
        dtext.append('\n'.join([head] + inject_raw(r.prog.lines, r.h or []) + ['end']) + '\n')
    rc2, dout, derr = _run(DRIVER, ''.join(dtext))
    dp = {n: ls for n, ls, done in split_output(dout)}
    bad = []
    for r in res:
        r.d = dp.get(r.prog.name)
        if r.d is None:
            r.note += ' driver produced no output: ' + derr[-300:]
            r.diff = 0
            continue
        r.exact = not uses_libm(r.prog.lines)
        if r.exact and 'bit-exact' in r.prog.tags:
            r.exact = 'bits'
        r.diff = compare(r.h, r.d, r.exact)
        if r.diff is not None:
            bad.append((r, dtext[res.index(r)]))
    if bad and os.environ.get('VERIF_DUMP_BAD'):
        # debugging aid: keep the whole shard in which a disagreement occurred (harness input and driver input)
        d = os.environ['VERIF_DUMP_BAD']; os.makedirs(d, exist_ok=True)
        open(os.path.join(d, 'shard_%d.in' % os.getpid() + '_%d' % id(res)), 'w').write(text)
        open(os.path.join(d, 'shard_%d.drv' % os.getpid() + '_%d' % id(res)), 'w').write(''.join(dtext))
        open(os.path.join(d, 'shard_%d.hout' % os.getpid() + '_%d' % id(res)), 'w').write(out)
        open(os.path.join(d, 'shard_%d.dout' % os.getpid() + '_%d' % id(res)), 'w').write(dout)
        open(os.path.join(d, 'shard_%d.bad' % os.getpid() + '_%d' % id(res)), 'w').write('\n'.join('%s %s' % (r.prog.name, r.diff) for r, _ in bad))
    if bad:
        rc3, mout, merr = _run(DRIVER, ''.join(t for _, t in bad), args=['--bcast=mean'])
        mp = {n: ls for n, ls, done in split_output(mout)}
        for r, _ in bad:
            r.dm = mp.get(r.prog.name)
            if r.dm is not None:
                r.diff_mean = compare(r.h, r.dm, r.exact)
    return res

def run_all(progs, shards=16, race=False, env_extra=None, cmd_timeout_ms=None):
    """shard the programs over processes"""
    if not progs:
        return []
    shards = max(1, min(shards, len(progs)))
    chunks = [progs[i::shards] for i in range(shards)]
    out = []
    with concurrent.futures.ThreadPoolExecutor(max_workers=shards) as ex:
        futs = [ex.submit(run_batch, c, race, env_extra, cmd_timeout_ms) for c in chunks]
        for f in futs:
            out.extend(f.result())
    return out

def shrink(prog, still_fails, budget=80):
    """greedy line deletion keeping the failure; still_fails(Prog) -> bool"""
    import copy
    cur = copy.deepcopy(prog)
    tries = 0
    changed = True
    while changed and tries < budget:
        changed = False
        for i in range(len(cur.lines) - 1, -1, -1):
            if tries >= budget:
                break
            cand = copy.deepcopy(cur)
            del cand.lines[i]
            tries += 1
            if still_fails(cand):
                cur = cand
                changed = True
    return cur
