"""Shared helpers for the case generators (python3 stdlib only)."""
import struct, random, itertools, math

def f2b(x):
    return str(struct.unpack('<Q', struct.pack('<d', float(x)))[0])

def b2f(s):
    return struct.unpack('<d', struct.pack('<Q', int(s)))[0]

def ulps(x, k):
    """x moved by k units in the last place (k may be negative); finite x"""
    import struct
    b = struct.unpack('<q', struct.pack('<d', x))[0]
    if b < 0: b = -(b & 0x7fffffffffffffff)
    b += k
    if b < 0: b = (-b) | (1 << 63)
    return struct.unpack('<d', struct.pack('<Q', b & 0xffffffffffffffff))[0]

def ints(l):
    if l is None:
        return 'nil'
    return '-' if len(l) == 0 else ','.join(str(int(v)) for v in l)

def ranges(l):
    if l is None:
        return 'nil'
    return '-' if len(l) == 0 else ','.join('%d:%d' % (a, b) for a, b in l)

def prod(l):
    p = 1
    for v in l:
        p *= v
    return p

def nested(shape, vals):
    """nested literal of float bit patterns for a rectangular shape"""
    if len(shape) == 0:
        return f2b(vals[0])
    n = prod(shape[1:])
    return '[' + ','.join(nested(shape[1:], vals[i * n:(i + 1) * n]) for i in range(shape[0])) + ']'

class Prog:
    """one program: lines plus tags describing what it exercises"""
    def __init__(self, name, **opts):
        self.name = name
        self.opts = opts
        self.lines = []
        self.tags = set()
        self._n = 0
    def fresh(self, p='t'):
        self._n += 1
        return '%s%d' % (p, self._n)
    def add(self, line):
        self.lines.append(line)
    def bind(self, cmd, p='t'):
        n = self.fresh(p)
        self.lines.append('%s = %s' % (n, cmd))
        return n
    def tag(self, *t):
        self.tags.update(t)
    def text(self):
        head = 'prog ' + self.name
        for k, v in self.opts.items():
            head += ' %s=%s' % (k, v)
        return '\n'.join([head] + self.lines + ['end']) + '\n'
    def tensor(self, shape, vals, tracked=False, name=None):
        """bind a leaf tensor of any rank with the given row-major values"""
        conf = 'T' if tracked else 'U'
        shape = list(shape)
        if len(shape) <= 4:
            cmd = 'tensorof %s %d %s' % (conf, len(shape), nested(shape, vals))
            if name:
                self.lines.append('%s = %s' % (name, cmd)); return name
            return self.bind(cmd)
        flat = self.bind('tensorof U 1 %s' % nested([len(vals)], vals))
        n = name or self.fresh()
        self.lines.append('%s = reshape %s %s' % (n, flat, ints(shape)))
        if tracked:
            self.lines.append('reset %s 1' % n)
        return n

def distinct_vals(rng, n, kind='int'):
    """n pairwise distinct values, exactly representable"""
    if kind == 'int':
        base = rng.randrange(-5, 6)
        vals = [base + i for i in range(n)]
        rng.shuffle(vals)
        return [float(v) for v in vals]
    if kind == 'pos':
        vals = [0.5 + 0.25 * i for i in range(n)]
        rng.shuffle(vals)
        return vals
    if kind == 'frac':
        vals = [(-1) ** i * (0.375 + 0.25 * i) for i in range(n)]
        rng.shuffle(vals)
        return vals
    raise ValueError(kind)

def rand_vals(rng, n, lo=-2.0, hi=2.0):
    return [rng.uniform(lo, hi) for _ in range(n)]

def all_shapes(max_rank, max_dim, min_rank=0):
    for r in range(min_rank, max_rank + 1):
        for s in itertools.product(range(1, max_dim + 1), repeat=r):
            yield list(s)

def rand_shape(rng, max_rank=4, max_dim=3, min_rank=0):
    r = rng.randint(min_rank, max_rank)
    return [rng.randint(1, max_dim) for _ in range(r)]

def broadcast_sources(rng, target):
    """a random source shape that broadcasts to target"""
    k = rng.randint(0, len(target))
    tail = target[len(target) - k:]
    return [d if rng.random() < 0.6 else 1 for d in tail]

def bshape(a, b):
    """numpy broadcast of two shapes or None"""
    r = []
    for i in range(1, max(len(a), len(b)) + 1):
        x = a[-i] if i <= len(a) else 1
        y = b[-i] if i <= len(b) else 1
        if x != y and x != 1 and y != 1:
            return None
        r.append(max(x, y))
    return r[::-1]

def dim_size(rng, small=3):
    """dimension size: mostly tiny, sometimes past typical unrolling / blocking factors"""
    r = rng.random()
    if r < 0.7:
        return rng.randint(1, small)
    if r < 0.93:
        return rng.choice([4, 5, 7, 8, 9, 10, 11, 14, 15, 16, 17])
    return rng.choice([31, 32, 33, 64, 65])


# ---------------------------------------------------------------- caller-owned slices

_INT_ARG = {'full': 1, 'zeros': 1, 'ones': 1, 'randu': 1, 'randn': 1, 'reshape': 1, 'broadcast': 1, 'at': 1}
_RNG_ARG = {'slice': 1, 'patch': 1}
_TEN_ARG = {'concat': 0}

def own_slices(q, rng, prob=1.0):
    """Rewrite program `q` so that the literal int lists / range lists / tensor lists it passes to the library become
    caller-owned Go slices which the caller overwrites straight after the call (the very same slice is passed, see
    PROTOCOL.md); every tensor bound so far is observed again at the end and after each back-propagation. A library that
    keeps a reference to a caller's slice (instead of copying it) then shows a changed shape / index / operand list."""
    p = Prog(q.name + '_own', **q.opts)
    p.tags = set(q.tags) | {'caller-owned-slices'}
    k = [0]
    bound = []
    def var(kind, lit):
        k[0] += 1
        name = '%sv%d' % (kind[0], k[0])
        p.add('%s = %s %s' % (name, kind, lit))
        return name
    for ln in q.lines:
        toks = ln.split(' ')
        has_dst = len(toks) > 2 and toks[1] == '='
        cmd = toks[2] if has_dst else toks[0]
        args = toks[3:] if has_dst else toks[1:]
        after = []
        def literal_ok(a):
            return a not in ('-', 'nil') and not a.startswith('$')
        if rng.random() < prob:
            if cmd in _INT_ARG and len(args) > _INT_ARG[cmd] and literal_ok(args[_INT_ARG[cmd]]):
                # `at` has no <conf>; constructors have <conf> first, methods have the tensor first: position 1 in all
                pos = _INT_ARG[cmd] if cmd != 'at' else 1
                lit = args[pos]
                try:
                    vals = [int(v) for v in lit.split(',')]
                except ValueError:
                    vals = None
                if vals:
                    v = var('ints', lit)
                    args = list(args); args[pos] = '$' + v
                    j = rng.randrange(len(vals))
                    after.append('setint %s %d %d' % (v, j, vals[j] + rng.choice([1, 2, -1])))
            elif cmd in _RNG_ARG and len(args) > 1 and literal_ok(args[1]) and ':' in args[1]:
                lit = args[1]
                prs = lit.split(',')
                v = var('ranges', lit)
                args = list(args); args[1] = '$' + v
                j = rng.randrange(len(prs))
                a, b = prs[j].split(':')
                try:
                    a, b = int(a), int(b)
                    after.append('setrange %s %d %d:%d' % (v, j, a + 1, b + 1) if rng.random() < 0.5 else 'setrange %s %d 0:1' % (v, j))
                except ValueError:
                    pass
            elif cmd in _TEN_ARG and args and literal_ok(args[0]):
                lit = args[0]
                names = lit.split(',')
                v = var('tensors', lit)
                args = list(args); args[0] = '$' + v
                j = rng.randrange(len(names))
                others = [b for b in bound if b != names[j]]
                after.append('settensor %s %d %s' % (v, j, rng.choice(others + ['nil']) if others and rng.random() < 0.7 else 'nil'))
        p.add(((toks[0] + ' = ') if has_dst else '') + ' '.join([cmd] + list(args)))
        for a in after:
            p.add(a)
        if has_dst and cmd not in ('ints', 'ranges', 'tensors', 'data', 'init', 'fc', 'input', 'relu', 'sigmoid', 'leaky', 'softmax',
                                   'mse', 'bce', 'ce', 'accuracy', 'sgd', 'weight', 'shape', 'grad') and not (cmd == 'tanh' and not args):
            if toks[0] not in bound: bound.append(toks[0])
        if after or cmd == 'bp':
            for b in bound[-6:]:
                p.add('obs %s' % b)
    for b in bound[-10:]:
        p.add('obs %s' % b)
    return p


# ---------------------------------------------------------------------------------------------------------------------
# operand provenance: the same values, reached through other constructors and operations, with read-only calls between

def _parse_lit(lit):
    """nested bracket literal of float bit patterns -> (shape, flat list of tokens) or None when ragged / empty"""
    pos = [0]
    def rec():
        if lit[pos[0]] == '[':
            pos[0] += 1
            items = []
            if lit[pos[0]] == ']':
                pos[0] += 1
                return None
            while True:
                it = rec()
                if it is None:
                    return None
                items.append(it)
                if lit[pos[0]] == ',':
                    pos[0] += 1; continue
                if lit[pos[0]] == ']':
                    pos[0] += 1; break
                return None
            sh = items[0][0]
            if any(i[0] != sh for i in items):
                return None
            flat = []
            for i in items: flat += i[1]
            return ([len(items)] + sh, flat)
        j = pos[0]
        while j < len(lit) and lit[j] not in ',]':
            j += 1
        tok = lit[pos[0]:j]; pos[0] = j
        if not tok.isdigit():
            return None
        return ([], [tok])
    try:
        r = rec()
    except IndexError:
        return None
    if r is None or pos[0] != len(lit):
        return None
    return r

def _lit(shape, toks):
    if not shape:
        return toks[0]
    n = prod(shape[1:])
    return '[' + ','.join(_lit(shape[1:], toks[i * n:(i + 1) * n]) for i in range(shape[0])) + ']'

_POKES = ['sum %s', 'mean %s', 'max %s', 'min %s', 'var %s', 'std %s', 'avg %s', 'nelems %s', 'equals %s %s']

def provenance(q, rng, prob=0.7):
    """Rewrite program `q`: every rectangular `tensorof` leaf is built another way that yields the same tensor — a constant
    tensor (Full / Zeros / Ones) patched with the data, a slice of a larger tensor, a concatenation of two parts, a reshape
    of the flat data, a transpose of the transposed data, a broadcast-free chain of these — and read-only calls (whole-
    tensor reducers, NElems, Equals, Shape) are made on the intermediate tensors and on the leaf before it is used. The
    leaf is reset to the tracking the program asked for, so it is a fresh leaf as before. A library that keeps per-tensor
    state which one of these operations forgets to invalidate or copies wrongly (a memo, a flag, a shared buffer) then
    computes the rest of the program from wrong values."""
    p = Prog(q.name + '_prov', **q.opts)
    p.tags = set(q.tags) | {'operand-provenance'}
    k = [0]
    def tmp():
        k[0] += 1
        return 'pv%d' % k[0]
    def poke(t):
        for _ in range(rng.randint(0, 2)):
            c = rng.choice(_POKES)
            p.add(c % ((t, t) if c.count('%s') == 2 else t))
    for ln in q.lines:
        toks = ln.split(' ')
        if not (len(toks) == 6 and toks[1] == '=' and toks[2] == 'tensorof' and toks[3] in ('T', 'U') and toks[4].isdigit()
                and int(toks[4]) >= 1 and rng.random() < prob):
            p.add(ln); continue
        name, conf, depth, lit = toks[0], toks[3], int(toks[4]), toks[5]
        parsed = _parse_lit(lit)
        if parsed is None or len(parsed[0]) != depth or prod(parsed[0]) == 0 or prod(parsed[0]) > 400:
            p.add(ln); continue
        shape, vals = parsed
        rank = len(shape)
        routes = ['const-patch', 'slice-of-larger', 'reshape-flat'] + (['reduce-unit-dim', 'reduce-unit-dim'] if depth <= 3 else [])
        if shape[0] >= 2: routes.append('concat')
        if rank >= 2: routes += ['transpose', 'const-patch-part']
        route = rng.choice(routes)
        whole = ','.join('0:%d' % d for d in shape)
        if route == 'const-patch':
            base = tmp()
            ctor = rng.choice(['zeros U %s' % ints(shape), 'ones U %s' % ints(shape), 'full U %s %s' % (ints(shape), vals[0])])
            p.add('%s = %s' % (base, ctor)); poke(base)
            src = tmp(); p.add('%s = tensorof U %d %s' % (src, depth, lit))
            idx = rng.choice([whole, '-', ','.join('0:0' for _ in shape), whole])
            p.add('%s = patch %s %s %s' % (name, base, idx, src))
        elif route == 'const-patch-part':
            # a constant tensor holding the first row's first value, patched with everything but keep rows [0,k) from a tensorof
            n0 = prod(shape[1:])
            kk = rng.randint(1, shape[0] - 1) if shape[0] >= 2 else 0
            base = tmp(); p.add('%s = tensorof U %d %s' % (base, depth, _lit(shape, vals[:kk * n0] + [vals[0]] * ((shape[0] - kk) * n0)))); poke(base)
            if kk < shape[0]:
                src = tmp(); p.add('%s = tensorof U %d %s' % (src, depth, _lit([shape[0] - kk] + shape[1:], vals[kk * n0:])))
                idx = '%d:%d' % (kk, shape[0]) + ''.join(',0:%d' % d for d in shape[1:])
                p.add('%s = patch %s %s %s' % (name, base, idx, src))
            else:
                p.add('%s = slice %s %s' % (name, base, whole))
        elif route == 'slice-of-larger':
            n0 = prod(shape[1:])
            extra = rng.randint(1, 2)
            front = rng.random() < 0.5
            pad = [vals[(7 * i) % len(vals)] for i in range(extra * n0)]
            big = tmp()
            data = (pad + vals) if front else (vals + pad)
            p.add('%s = tensorof U %d %s' % (big, depth, _lit([shape[0] + extra] + shape[1:], data))); poke(big)
            a = extra if front else 0
            idx = '%d:%d' % (a, a + shape[0])
            if rng.random() < 0.5: idx += ''.join(',0:%d' % d for d in shape[1:])
            p.add('%s = slice %s %s' % (name, big, idx))
        elif route == 'concat':
            n0 = prod(shape[1:]); kk = rng.randint(1, shape[0] - 1)
            a, b = tmp(), tmp()
            p.add('%s = tensorof U %d %s' % (a, depth, _lit([kk] + shape[1:], vals[:kk * n0])))
            p.add('%s = tensorof U %d %s' % (b, depth, _lit([shape[0] - kk] + shape[1:], vals[kk * n0:])))
            poke(a)
            p.add('%s = concat %s,%s 0' % (name, a, b))
        elif route == 'reduce-unit-dim':
            # the result of a reducer along a dimension of size 1 (MaxAlong / MinAlong keep every value, signed zeros and NaN
            # included): a tensor whose shape was derived by REMOVING a dimension from another one
            kd = rng.randint(0, rank)
            big = tmp(); p.add('%s = tensorof U %d %s' % (big, depth + 1, _lit(shape[:kd] + [1] + shape[kd:], vals))); poke(big)
            p.add('%s = %salong %s %d' % (name, rng.choice(['max', 'min']), big, kd))
        elif route == 'reshape-flat':
            flat = tmp(); p.add('%s = tensorof U 1 %s' % (flat, _lit([len(vals)], vals))); poke(flat)
            p.add('%s = reshape %s %s' % (name, flat, ints(shape)))
        else:  # transpose
            r, c = shape[-2], shape[-1]
            nb = prod(shape[:-2])
            tv = []
            for bi in range(nb):
                blk = vals[bi * r * c:(bi + 1) * r * c]
                for j in range(c):
                    for i in range(r):
                        tv.append(blk[i * c + j])
            tt = tmp(); p.add('%s = tensorof U %d %s' % (tt, depth, _lit(shape[:-2] + [c, r], tv))); poke(tt)
            p.add('%s = transpose %s' % (name, tt))
        poke(name)
        p.add('reset %s %d' % (name, 1 if conf == 'T' else 0))
        if rng.random() < 0.5:
            p.add('obs %s' % name)
    return p


# ---------------------------------------------------------------------------------------------------------------------
# foreign tensor implementations

_NO_FOREIGN = ('setptr', 'input', 'wrap', 'tensors', 'settensor')

def foreign(q, rng, p_wrap=0.5, p_use=0.2):
    """Rewrite program `q`: some tensors get a wrapper `w = wrap t` (a caller's own struct embedding the library tensor, i.e.
    a `tensor.Tensor` that is not the library's implementation) and later uses of `t` are replaced by `w` here and there.
    As a receiver the wrapper IS the tensor; as an argument every entry point must reject it with an error and change
    nothing (PROTOCOL.md, `wrap`)."""
    p = Prog(q.name + '_frn', **q.opts)
    p.tags = set(q.tags) | {'foreign-tensor'}
    wrapped = {}
    used = 0
    for ln in q.lines:
        toks = ln.split(' ')
        has_dst = len(toks) > 2 and toks[1] == '='
        cmd = toks[2] if has_dst else toks[0]
        start = 3 if has_dst else 1
        if cmd not in _NO_FOREIGN:
            for i in range(start, len(toks)):
                if toks[i] in wrapped and rng.random() < p_use:
                    toks[i] = wrapped[toks[i]]; used += 1
                elif ',' in toks[i] and cmd == 'concat':
                    parts = toks[i].split(',')
                    toks[i] = ','.join(wrapped[x] if x in wrapped and rng.random() < p_use else x for x in parts)
        p.add(' '.join(toks))
        if has_dst and (cmd in ('tensorof', 'full', 'zeros', 'ones', 'reshape', 'slice', 'patch', 'concat', 'transpose', 'deref')
                        or cmd in ('add', 'mul', 'sub', 'scale', 'exp', 'sin', 'tanh', 'fwd', 'loss')) and rng.random() < p_wrap:
            w = 'w_' + toks[0]
            p.add('%s = wrap %s' % (w, toks[0]))
            wrapped[toks[0]] = w
            if toks[0] in wrapped.values():
                pass
    return p if used else None


# ---------------------------------------------------------------------------------------------------------------------
# rejected calls first

def error_prelude(p, rng, k=None):
    """a batch of calls that the library must reject with an error (one per kind of precondition), plus the accepted
    variant next to each: whatever the rest of the program does afterwards must not be affected by the error paths taken"""
    def T(shape, base=1.0):
        n = prod(shape)
        name = p.fresh('e')
        p.lines.append('%s = tensorof U %d %s' % (name, len(shape), nested(shape, [base + 0.25 * i for i in range(n)])) if len(shape) <= 4 else '')
        return name
    a432, b235, b435 = T([4, 2, 3]), T([2, 3, 5], 2.0), T([4, 3, 5], 3.0)
    v3, v4, m23, m32 = T([3]), T([4]), T([2, 3]), T([3, 2])
    calls = [
        'matmul %s %s' % (a432, b235),      # matrices fit, batch dimensions do not broadcast (left one does, right one does not)
        'matmul %s %s' % (b235, a432), 'matmul %s %s' % (m23, m23), 'matmul %s %s' % (v3, m32),
        'matmul %s %s' % (a432, b435),      # accepted
        'add %s %s' % (v3, v4), 'sub %s %s' % (m23, m32), 'mul %s %s' % (a432, b235), 'div %s %s' % (v4, m23),
        'add %s %s' % (m23, v3),            # accepted
        'dot %s %s' % (v3, v4), 'dot %s %s' % (m23, a432), 'elmax %s %s' % (v3, v4), 'eq %s %s' % (m23, m32),
        'concat %s,%s 0' % (v3, m23), 'concat %s,%s 1' % (m23, m32), 'concat %s,%s 5' % (v3, v3), 'concat %s,%s 0' % (v3, v4),
        'slice %s 0:5' % v3, 'slice %s 2:1' % v3, 'slice %s 0:1,0:1' % v3, 'patch %s 0:2 %s' % (v3, v4), 'patch %s - %s' % (v3, m23),
        'reshape %s 7' % v3, 'reshape %s 0' % v3, 'broadcast %s 2,4' % v3, 'broadcast %s 2' % m23, 'broadcast %s 2,3' % v3,
        'squeeze %s 0' % v3, 'unsqueeze %s 3' % v3, 'flatten %s 2' % m23, 'transpose %s' % v3, 'sumalong %s 2' % m23,
        'maxalong %s -1' % v3, 'stdalong %s 1' % v3, 'at %s 5' % v3, 'at %s 0,0' % v3, 'full U 2,0 %s' % f2b(1.0), 'eye U 0',
        'bp nil', 'equals %s nil' % v3,
    ]
    if k is not None:
        calls = rng.sample(calls, min(k, len(calls)))
    for c in calls:
        if c.split(' ')[0] in ('at', 'bp', 'equals'):
            p.add(c)
        else:
            p.bind(c, 'e')
    # components
    j1, j2, j3 = p.bind('mse', 'ej'), p.bind('bce', 'ej'), p.bind('ce', 'ej')
    for j, (x, y) in ((j1, (v3, v4)), (j2, (m23, m23)), (j3, (v3, v3)), (j1, (v3, 'nil')), (j3, (m23, m32))):
        p.bind('loss %s %s %s' % (j, x, y), 'e')
    m = p.bind('accuracy', 'em'); p.add('acc %s %s %s' % (m, v3, v4)); p.add('acc %s %s %s' % (m, m23, m23)); p.add('result %s' % m)
    f = p.bind('fc 3 2', 'ef'); p.bind('fwd %s %s' % (f, v3), 'e'); p.bind('fwd %s %s' % (f, m32), 'e'); p.bind('fwd %s %s' % (f, m23), 'e')
    s = p.bind('softmax 2', 'ea'); p.bind('fwd %s %s' % (s, m23), 'e'); p.bind('fwd %s' % s, 'e')
    o = p.bind('sgd nil', 'eo'); p.add('upd %s nilptr' % o)
    pw = p.bind('weight %s 0' % f, 'ep'); p.add('upd %s %s' % (o, pw))      # no gradient yet: rejected

def errors_first(q, rng):
    """program `q` preceded by the batch of rejected calls"""
    p = Prog(q.name + '_err', **q.opts)
    p.tags = set(q.tags) | {'after-rejected-calls'}
    p._n = 100000
    error_prelude(p, rng)
    p.lines += q.lines
    return p


# ---------------------------------------------------------------------------------------------------- concurrent replicas
_NO_REPLICA = ('seedrng', 'randu', 'randn', 'initcall', 'par', 'thread', 'init')

def replicas(q, rng, n=None):
    """Rewrite program `q`: the whole program runs in `n` goroutines at once, each replica on its own tensors and component
    objects (every name is made thread-local). Nothing is shared between the replicas except what the LIBRARY shares behind
    the caller's back — package-level scratch buffers, pooled objects, memo tables, a parallel kernel whose result depends on
    which worker finishes first. The model runs the replicas one after the other; an operation that is a function of its
    operands gives every replica exactly the sequential result. (Programs that draw random numbers are left out: the global
    source is meant to be shared.)"""
    for ln in q.lines:
        toks = ln.split(' ')
        cmd = toks[2] if len(toks) > 2 and toks[1] == '=' else toks[0]
        if cmd in _NO_REPLICA:
            return None
        if cmd == 'fc' and not ('W=' in ln and 'B=' in ln):
            return None          # default initializers draw from the global source
    n = n or rng.choice([3, 4, 8])
    names = set()
    for ln in q.lines:
        toks = ln.split(' ')
        if len(toks) > 2 and toks[1] == '=':
            names.add(toks[0])
    p = Prog(q.name + '_rep', **q.opts)
    p.tags = set(q.tags) | {'concurrent-replicas', 'replicas%d' % n}
    p.add('par')
    for tid in range(n):
        p.add('thread')
        def ren(tok):
            if tok in names:
                return 'th%d_%s' % (tid, tok)
            if ',' in tok:
                return ','.join(ren(x) for x in tok.split(','))
            if '=' in tok and tok.count('=') == 1:
                k, v = tok.split('=')
                if v in names:
                    return '%s=th%d_%s' % (k, tid, v)
            return tok
        for ln in q.lines:
            p.add(' '.join(ren(t) for t in ln.split(' ')))
        p.add('endthread')
    p.add('endpar')
    return p


# ---------------------------------------------------------------------------------------------------- resets in odd places
import re as _re
_TNAME = _re.compile(r'^t\d+$')

def resets(q, rng):
    """Rewrite program `q`: `ResetGradContext` is called where a caller may call it but the generators' own programs do not —
    on a leaf or an intermediate result BETWEEN building a graph and back-propagating it (the "zero the gradients right before
    backward" habit), with the flag the tensor already has or the other one, on tensors a back-propagation has spent and on
    tensors computed from them; afterwards a tensor computed from a spent one is detached with ResetGradContext(false) and
    used, next to a fresh tracked tensor of its shape, in a new graph that is back-propagated. A reset makes the tensor a fresh leaf with
    the given flag — nothing else, whatever state its old context was in."""
    if any(l.startswith('par') for l in q.lines):
        return None
    p = Prog(q.name + '_rst', **q.opts)
    p.tags = set(q.tags) | {'resets-in-odd-places'}
    p._n = 200000
    leaves, tensors = [], []
    done = 0
    last_bp_root = None
    for ln in q.lines:
        toks = ln.split(' ')
        if toks[0] == 'bp' and len(toks) == 2 and tensors and rng.random() < 0.6:
            # before the walk: reset a leaf (mostly to the flag it has) or an intermediate tensor
            pool = leaves if (leaves and rng.random() < 0.6) else tensors
            t, tr = rng.choice(pool)
            flag = (1 if tr else 0) if rng.random() < 0.7 else rng.choice([0, 1])
            p.add('reset %s %d' % (t, flag)); done += 1
        p.add(ln)
        if toks[0] == 'bp' and len(toks) == 2:
            last_bp_root = toks[1]
            if tensors and rng.random() < 0.4:
                t, tr = rng.choice(tensors)
                p.add('reset %s %d' % (t, rng.choice([0, 1]))); p.add('obs %s' % t); done += 1
        if len(toks) > 2 and toks[1] == '=' and _TNAME.match(toks[0]):
            if toks[2] == 'tensorof' and toks[3] in ('T', 'U'):
                leaves.append((toks[0], toks[3] == 'T'))
            tensors.append((toks[0], toks[2] == 'tensorof' and toks[3] == 'T'))
    if last_bp_root is not None and tensors:
        # a tensor computed from a spent one, detached, in a new graph next to a fresh tracked scalar
        s0, _ = rng.choice(tensors)
        u = p.bind('scale %s %s' % (s0, f2b(1.0)))
        p.add('reset %s 0' % u)
        v = p.bind('scale %s %s' % (p.bind('pow %s %s' % (u, f2b(0.0))), f2b(rng.choice([0.5, 2.0, -1.5]))))   # same shape as u
        p.add('reset %s 1' % v)
        z = p.bind('mul %s %s' % (u, v))
        p.add('bp %s' % z); p.add('obs %s' % v); p.add('obs %s' % u); p.add('obs %s' % s0)
        # ... and a tracked intermediate result made a fresh leaf: nothing behind it is reached any more
        w0, _ = rng.choice(tensors)
        b1 = p.bind('scale %s %s' % (w0, f2b(2.0)))
        p.add('reset %s 1' % b1)
        c1 = p.bind('scale %s %s' % (b1, f2b(3.0)))
        p.add('bp %s' % c1); p.add('obs %s' % b1); p.add('obs %s' % w0)
        done += 2
    return p if done else None


def derived_tensor(p, rng, shape, vals, conf='U'):
    """a tensor of the given shape and values that is the RESULT of a library operation rather than a constructor's: a reducer
    along a unit dimension, Squeeze of a unit dimension, Reshape of the flat data, a Slice of a larger tensor, Transpose of the
    transposed data, Flatten of a split leading dimension — internal representations (shape slices with spare capacity, shared
    rows, views) differ by provenance; results must not"""
    r = len(shape)
    routes = ['reshape', 'slice']
    if r <= 3: routes += ['reduce', 'reduce', 'squeeze']
    if r >= 2: routes.append('transpose')
    how = rng.choice(routes)
    p.tag('derived-operand', 'derived:' + how)
    if how in ('reduce', 'squeeze'):
        k = rng.randint(0, r)
        big = p.tensor(shape[:k] + [1] + shape[k:], vals)
        t = p.bind(('%salong %s %d' % (rng.choice(['max', 'min']), big, k)) if how == 'reduce' else 'squeeze %s %d' % (big, k))
    elif how == 'reshape':
        flat = p.tensor([len(vals)], vals)
        t = p.bind('reshape %s %s' % (flat, ints(shape)))
    elif how == 'slice':
        if r == 0:
            big = p.tensor([2], [vals[0], vals[0] + 1.0]); t = p.bind('reshape %s -' % p.bind('slice %s 0:1' % big))
        else:
            n0 = prod(shape[1:])
            big = p.tensor([shape[0] + 1] + shape[1:], [vals[(3 * i) % len(vals)] for i in range(n0)] + list(vals))
            t = p.bind('slice %s 1:%d' % (big, shape[0] + 1))
    else:
        rr, cc = shape[-2], shape[-1]
        nb = prod(shape[:-2])
        tv = []
        for bi in range(nb):
            blk = vals[bi * rr * cc:(bi + 1) * rr * cc]
            for j in range(cc):
                for i in range(rr):
                    tv.append(blk[i * cc + j])
        t = p.bind('transpose %s' % p.tensor(shape[:-2] + [cc, rr], tv))
    if conf == 'T':
        p.add('reset %s 1' % t)
    return t
