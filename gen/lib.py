"""Shared helpers for the case generators (python3 stdlib only)."""
import struct, random, itertools, math

def f2b(x):
    return str(struct.unpack('<Q', struct.pack('<d', float(x)))[0])

def b2f(s):
    return struct.unpack('<d', struct.pack('<Q', int(s)))[0]

def ints(l):
    if l is None:
        return 'nil'
    return '-' if len(l) == 0 else ','.join(str(int(v)) for v in l)

def ranges(l):
    if l is None:
        return 'nil'
    return '-' if len(l) == 0 else ','.join('%d:%d' % (a, b) for a, b in l)

def prod(l):
    p = 1
    for v in l:
        p *= v
    return p

def nested(shape, vals):
    """nested literal of float bit patterns for a rectangular shape"""
    if len(shape) == 0:
        return f2b(vals[0])
    n = prod(shape[1:])
    return '[' + ','.join(nested(shape[1:], vals[i * n:(i + 1) * n]) for i in range(shape[0])) + ']'

class Prog:
    """one program: lines plus tags describing what it exercises"""
    def __init__(self, name, **opts):
        self.name = name
        self.opts = opts
        self.lines = []
        self.tags = set()
        self._n = 0
    def fresh(self, p='t'):
        self._n += 1
        return '%s%d' % (p, self._n)
    def add(self, line):
        self.lines.append(line)
    def bind(self, cmd, p='t'):
        n = self.fresh(p)
        self.lines.append('%s = %s' % (n, cmd))
        return n
    def tag(self, *t):
        self.tags.update(t)
    def text(self):
        head = 'prog ' + self.name
        for k, v in self.opts.items():
            head += ' %s=%s' % (k, v)
        return '\n'.join([head] + self.lines + ['end']) + '\n'
    def tensor(self, shape, vals, tracked=False, name=None):
        """bind a leaf tensor of any rank with the given row-major values"""
        conf = 'T' if tracked else 'U'
        shape = list(shape)
        if len(shape) <= 4:
            cmd = 'tensorof %s %d %s' % (conf, len(shape), nested(shape, vals))
            if name:
                self.lines.append('%s = %s' % (name, cmd)); return name
            return self.bind(cmd)
        flat = self.bind('tensorof U 1 %s' % nested([len(vals)], vals))
        n = name or self.fresh()
        self.lines.append('%s = reshape %s %s' % (n, flat, ints(shape)))
        if tracked:
            self.lines.append('reset %s 1' % n)
        return n

def distinct_vals(rng, n, kind='int'):
    """n pairwise distinct values, exactly representable"""
    if kind == 'int':
        base = rng.randrange(-5, 6)
        vals = [base + i for i in range(n)]
        rng.shuffle(vals)
        return [float(v) for v in vals]
    if kind == 'pos':
        vals = [0.5 + 0.25 * i for i in range(n)]
        rng.shuffle(vals)
        return vals
    if kind == 'frac':
        vals = [(-1) ** i * (0.375 + 0.25 * i) for i in range(n)]
        rng.shuffle(vals)
        return vals
    raise ValueError(kind)

def rand_vals(rng, n, lo=-2.0, hi=2.0):
    return [rng.uniform(lo, hi) for _ in range(n)]

def all_shapes(max_rank, max_dim, min_rank=0):
    for r in range(min_rank, max_rank + 1):
        for s in itertools.product(range(1, max_dim + 1), repeat=r):
            yield list(s)

def rand_shape(rng, max_rank=4, max_dim=3, min_rank=0):
    r = rng.randint(min_rank, max_rank)
    return [rng.randint(1, max_dim) for _ in range(r)]

def broadcast_sources(rng, target):
    """a random source shape that broadcasts to target"""
    k = rng.randint(0, len(target))
    tail = target[len(target) - k:]
    return [d if rng.random() < 0.6 else 1 for d in tail]

def bshape(a, b):
    """numpy broadcast of two shapes or None"""
    r = []
    for i in range(1, max(len(a), len(b)) + 1):
        x = a[-i] if i <= len(a) else 1
        y = b[-i] if i <= len(b) else 1
        if x != y and x != 1 and y != 1:
            return None
        r.append(max(x, y))
    return r[::-1]

def dim_size(rng, small=3):
    """dimension size: mostly tiny, sometimes past typical unrolling / blocking factors"""
    r = rng.random()
    if r < 0.7:
        return rng.randint(1, small)
    if r < 0.93:
        return rng.choice([4, 5, 7, 8, 9, 10, 11, 14, 15, 16, 17])
    return rng.choice([31, 32, 33, 64, 65])


# ---------------------------------------------------------------- caller-owned slices

_INT_ARG = {'full': 1, 'zeros': 1, 'ones': 1, 'randu': 1, 'randn': 1, 'reshape': 1, 'broadcast': 1, 'at': 1}
_RNG_ARG = {'slice': 1, 'patch': 1}
_TEN_ARG = {'concat': 0}

def own_slices(q, rng, prob=1.0):
    """Rewrite program `q` so that the literal int lists / range lists / tensor lists it passes to the library become
    caller-owned Go slices which the caller overwrites straight after the call (the very same slice is passed, see
    PROTOCOL.md); every tensor bound so far is observed again at the end and after each back-propagation. A library that
    keeps a reference to a caller's slice (instead of copying it) then shows a changed shape / index / operand list."""
    p = Prog(q.name + '_own', **q.opts)
    p.tags = set(q.tags) | {'caller-owned-slices'}
    k = [0]
    bound = []
    def var(kind, lit):
        k[0] += 1
        name = '%sv%d' % (kind[0], k[0])
        p.add('%s = %s %s' % (name, kind, lit))
        return name
    for ln in q.lines:
        toks = ln.split(' ')
        has_dst = len(toks) > 2 and toks[1] == '='
        cmd = toks[2] if has_dst else toks[0]
        args = toks[3:] if has_dst else toks[1:]
        after = []
        def literal_ok(a):
            return a not in ('-', 'nil') and not a.startswith('$')
        if rng.random() < prob:
            if cmd in _INT_ARG and len(args) > _INT_ARG[cmd] and literal_ok(args[_INT_ARG[cmd]]):
                # `at` has no <conf>; constructors have <conf> first, methods have the tensor first: position 1 in all
                pos = _INT_ARG[cmd] if cmd != 'at' else 1
                lit = args[pos]
                try:
                    vals = [int(v) for v in lit.split(',')]
                except ValueError:
                    vals = None
                if vals:
                    v = var('ints', lit)
                    args = list(args); args[pos] = '$' + v
                    j = rng.randrange(len(vals))
                    after.append('setint %s %d %d' % (v, j, vals[j] + rng.choice([1, 2, -1])))
            elif cmd in _RNG_ARG and len(args) > 1 and literal_ok(args[1]) and ':' in args[1]:
                lit = args[1]
                prs = lit.split(',')
                v = var('ranges', lit)
                args = list(args); args[1] = '$' + v
                j = rng.randrange(len(prs))
                a, b = prs[j].split(':')
                try:
                    a, b = int(a), int(b)
                    after.append('setrange %s %d %d:%d' % (v, j, a + 1, b + 1) if rng.random() < 0.5 else 'setrange %s %d 0:1' % (v, j))
                except ValueError:
                    pass
            elif cmd in _TEN_ARG and args and literal_ok(args[0]):
                lit = args[0]
                names = lit.split(',')
                v = var('tensors', lit)
                args = list(args); args[0] = '$' + v
                j = rng.randrange(len(names))
                others = [b for b in bound if b != names[j]]
                after.append('settensor %s %d %s' % (v, j, rng.choice(others + ['nil']) if others and rng.random() < 0.7 else 'nil'))
        p.add(((toks[0] + ' = ') if has_dst else '') + ' '.join([cmd] + list(args)))
        for a in after:
            p.add(a)
        if has_dst and cmd not in ('ints', 'ranges', 'tensors', 'data', 'init', 'fc', 'input', 'relu', 'sigmoid', 'leaky', 'softmax',
                                   'mse', 'bce', 'ce', 'accuracy', 'sgd', 'weight', 'shape', 'grad') and not (cmd == 'tanh' and not args):
            if toks[0] not in bound: bound.append(toks[0])
        if after or cmd == 'bp':
            for b in bound[-6:]:
                p.add('obs %s' % b)
    for b in bound[-10:]:
        p.add('obs %s' % b)
    return p
