"""Shared helpers for the case generators (python3 stdlib only)."""
import struct, random, itertools, math

def f2b(x):
    return str(struct.unpack('<Q', struct.pack('<d', float(x)))[0])

def b2f(s):
    return struct.unpack('<d', struct.pack('<Q', int(s)))[0]

def ints(l):
    if l is None:
        return 'nil'
    return '-' if len(l) == 0 else ','.join(str(int(v)) for v in l)

def ranges(l):
    if l is None:
        return 'nil'
    return '-' if len(l) == 0 else ','.join('%d:%d' % (a, b) for a, b in l)

def prod(l):
    p = 1
    for v in l:
        p *= v
    return p

def nested(shape, vals):
    """nested literal of float bit patterns for a rectangular shape"""
    if len(shape) == 0:
        return f2b(vals[0])
    n = prod(shape[1:])
    return '[' + ','.join(nested(shape[1:], vals[i * n:(i + 1) * n]) for i in range(shape[0])) + ']'

class Prog:
    """one program: lines plus tags describing what it exercises"""
    def __init__(self, name, **opts):
        self.name = name
        self.opts = opts
        self.lines = []
        self.tags = set()
        self._n = 0
    def fresh(self, p='t'):
        self._n += 1
        return '%s%d' % (p, self._n)
    def add(self, line):
        self.lines.append(line)
    def bind(self, cmd, p='t'):
        n = self.fresh(p)
        self.lines.append('%s = %s' % (n, cmd))
        return n
    def tag(self, *t):
        self.tags.update(t)
    def text(self):
        head = 'prog ' + self.name
        for k, v in self.opts.items():
            head += ' %s=%s' % (k, v)
        return '\n'.join([head] + self.lines + ['end']) + '\n'
    def tensor(self, shape, vals, tracked=False, name=None):
        """bind a leaf tensor of any rank with the given row-major values"""
        conf = 'T' if tracked else 'U'
        shape = list(shape)
        if len(shape) <= 4:
            cmd = 'tensorof %s %d %s' % (conf, len(shape), nested(shape, vals))
            if name:
                self.lines.append('%s = %s' % (name, cmd)); return name
            return self.bind(cmd)
        flat = self.bind('tensorof U 1 %s' % nested([len(vals)], vals))
        n = name or self.fresh()
        self.lines.append('%s = reshape %s %s' % (n, flat, ints(shape)))
        if tracked:
            self.lines.append('reset %s 1' % n)
        return n

def distinct_vals(rng, n, kind='int'):
    """n pairwise distinct values, exactly representable"""
    if kind == 'int':
        base = rng.randrange(-5, 6)
        vals = [base + i for i in range(n)]
        rng.shuffle(vals)
        return [float(v) for v in vals]
    if kind == 'pos':
        vals = [0.5 + 0.25 * i for i in range(n)]
        rng.shuffle(vals)
        return vals
    if kind == 'frac':
        vals = [(-1) ** i * (0.375 + 0.25 * i) for i in range(n)]
        rng.shuffle(vals)
        return vals
    raise ValueError(kind)

def rand_vals(rng, n, lo=-2.0, hi=2.0):
    return [rng.uniform(lo, hi) for _ in range(n)]

def all_shapes(max_rank, max_dim, min_rank=0):
    for r in range(min_rank, max_rank + 1):
        for s in itertools.product(range(1, max_dim + 1), repeat=r):
            yield list(s)

def rand_shape(rng, max_rank=4, max_dim=3, min_rank=0):
    r = rng.randint(min_rank, max_rank)
    return [rng.randint(1, max_dim) for _ in range(r)]

def broadcast_sources(rng, target):
    """a random source shape that broadcasts to target"""
    k = rng.randint(0, len(target))
    tail = target[len(target) - k:]
    return [d if rng.random() < 0.6 else 1 for d in tail]

def bshape(a, b):
    """numpy broadcast of two shapes or None"""
    r = []
    for i in range(1, max(len(a), len(b)) + 1):
        x = a[-i] if i <= len(a) else 1
        y = b[-i] if i <= len(b) else 1
        if x != y and x != 1 and y != 1:
            return None
        r.append(max(x, y))
    return r[::-1]

def dim_size(rng, small=3):
    """dimension size: mostly tiny, sometimes past typical unrolling / blocking factors"""
    r = rng.random()
    if r < 0.7:
        return rng.randint(1, small)
    if r < 0.93:
        return rng.choice([4, 5, 7, 8, 9, 10, 11, 14, 15, 16, 17])
    return rng.choice([31, 32, 33, 64, 65])
