"""Generators for the autograd properties C01 C02 C07 C08."""
import itertools, random, math
from lib import *
from fwd import rand_index, sliced_shape, factorizations

UNARY = ['exp', 'log', 'sin', 'cos', 'tan', 'sinh', 'cosh', 'tanh']
ALONG = ['sum', 'max', 'min', 'avg', 'var', 'std', 'mean']

def weights(rng, n):
    """non-uniform upstream weighting"""
    return [rng.choice([-2.0, -1.0, 0.5, 1.0, 1.5, 3.0]) + 0.25 * (i % 3) for i in range(n)]

def finish(p, y, yshape, rng, leaves, weighted=True, skip=None, skip_exact=False, skip_shape=None):
    """back-propagate an arbitrary upstream weighting through y and observe the operands.
    skip = a tensor of y's shape that y was computed from: with some probability y is first joined with it by an operation whose
    back edges point at its operands directly (Concat in either order; ElMax / ElMin when `skip_exact`: values that are equal
    are exactly equal) — a skip connection: the operand is reached by the walk both directly and through y"""
    sshape = list(yshape) if skip_shape is None else list(skip_shape)
    cdims = [d for d in range(len(yshape))
             if len(sshape) == len(yshape) and all(sshape[j] == yshape[j] for j in range(len(yshape)) if j != d)]
    if skip is not None and cdims and rng.random() < 0.35:
        how = rng.choice(['concat-xy', 'concat-yx', 'concat-xy'] + (['elmax', 'elmin'] if skip_exact and sshape == list(yshape) else []))
        if how.startswith('concat'):
            d = rng.choice(cdims)
            pair = (skip, y) if how == 'concat-xy' else (y, skip)
            y = p.bind('concat %s,%s %d' % (pair[0], pair[1], d))
            yshape = list(yshape); yshape[d] += sshape[d]
        else:
            y = p.bind('%s %s %s' % (how, skip, y))
        p.tag('skip-connection', 'skip:' + how)
    if weighted:
        g = p.tensor(yshape, weights(rng, prod(yshape)))
        z = p.bind('mul %s %s' % (y, g))
        p.add('bp %s' % z)
    else:
        p.add('bp %s' % y)
    for l in leaves:
        p.add('obs %s' % l)

def near_tie(rng, v):
    """a value a hair away from v: 1e-13 … 1e-9 relative-ish offsets, a few units in the last place, or v itself (exact tie)"""
    k = rng.random()
    if k < 0.15:
        return v
    if k < 0.5:
        return ulps(v, rng.choice([-3, -2, -1, 1, 2, 3])) if v != 0 else rng.choice([-1, 1]) * 1e-300
    return v + rng.choice([-1, 1]) * rng.choice([1e-13, 4e-11, 1e-11, 1e-10, 1e-9, 1e-12])

def c02_case(rng, op, i, tier):
    """one single-application program for operation `op`; returns Prog or None"""
    p = Prog('c02_%s_%d' % (op, i))
    p.tag(op)
    big = (i % 6 == 5)
    shape = rand_shape(rng, 5 if big else 3, 2 if big else 3, 0)
    n = prod(shape)
    tr = lambda: rng.random() < 0.75
    def pos(k): return [0.6 + 0.3 * j + rng.random() * 0.1 for j in range(k)]
    def gen(k): return rand_vals(rng, k, -1.5, 1.5)
    def distinct(k):
        v = [0.4 * j - 1.0 + rng.random() * 0.1 for j in range(k)]
        rng.shuffle(v)
        return v
    p.tag('rank%d' % len(shape))
    if op in UNARY:
        vals = pos(n) if op == 'log' else ([rng.uniform(-1.2, 1.2) for _ in range(n)] if op == 'tan' else gen(n))
        if op in ('tanh', 'sinh', 'cosh', 'exp') and i % 4 == 3:
            # saturated / large arguments: the derivative spans many orders of magnitude (1/cosh^2 at 18 is 2e-15 of its value at 0)
            vals = [rng.choice([-1.0, 1.0]) * rng.uniform(4.0, 18.0) for _ in range(n)]
            p.tag('large-arguments')
        x = p.tensor(shape, vals, tracked=True)
        y = p.bind('%s %s' % (op, x))
        if op == 'tanh' and 'large-arguments' in p.tags:
            # upstream weights of the size of 1 / f'(x): the delivered gradient is of order 1 wherever f' is tiny, so a rule that
            # loses the small derivative to cancellation is seen through the comparison's absolute floor
            g = p.tensor(shape, [math.cosh(v) ** 2 * rng.choice([0.5, 1.0, 2.0]) for v in vals])
            p.add('bp %s' % p.bind('mul %s %s' % (y, g))); p.add('obs %s' % x)
        else:
            finish(p, y, shape, rng, [x], skip=x)
    elif op == 'scale':
        x = p.tensor(shape, gen(n), tracked=True)
        y = p.bind('scale %s %s' % (x, f2b(rng.choice([0.0, -1.0, 2.5, 0.125]))))
        finish(p, y, shape, rng, [x], skip=x)
    elif op == 'pow':
        mode = rng.choice(['pos', 'pos', 'zero', 'negint'])
        if mode == 'pos':
            vals = pos(n); e = rng.choice([0.0, 1.0, 2.0, 3.0, -1.0, -2.0, 0.5, 1.5])
        elif mode == 'zero':
            vals = [0.0 if rng.random() < 0.5 else v for v in pos(n)]
            if n: vals[0] = 0.0
            e = rng.choice([0.0, 1.0, 2.0])
            p.tag('pow-base0-exp%d' % int(e))
        else:
            vals = [-v for v in pos(n)]; e = rng.choice([0.0, 1.0, 2.0, 3.0, -1.0, -2.0])
        x = p.tensor(shape, vals, tracked=True)
        y = p.bind('pow %s %s' % (x, f2b(e)))
        finish(p, y, shape, rng, [x])
    elif op in ('add', 'sub', 'mul', 'div', 'elmax', 'elmin'):
        a = distinct(n)
        b = [v + 0.17 for v in distinct(n)]
        if op == 'div':
            b = pos(n)
        if op in ('elmax', 'elmin') and i % 3 == 2:
            # near-ties: the other operand a hair away (1e-13 … 1e-9, or a few units in the last place) — NOT a tie for the
            # code's equality (|a-b| <= 1e-240), so the whole gradient goes to the selected operand; plus some exact ties
            b = [near_tie(rng, v) if rng.random() < 0.7 else w for v, w in zip(a, b)]
            p.tag('near-ties')
        ta = p.tensor(shape, a, tracked=tr())
        tb = p.tensor(shape, b, tracked=tr())
        y = p.bind('%s %s %s' % (op, ta, tb))
        finish(p, y, shape, rng, [ta, tb])
    elif op == 'dot':
        if not shape: shape = [rng.randint(1, 3)]
        n = prod(shape)
        ta = p.tensor(shape, gen(n), tracked=tr())
        tb = p.tensor(shape, gen(n), tracked=tr())
        y = p.bind('dot %s %s' % (ta, tb))
        finish(p, y, shape[:-1], rng, [ta, tb])
        p.tag('dot-rank%d' % len(shape))
    elif op == 'matmul':
        batch = rand_shape(rng, 2, 2, 0)
        m, k, q = rng.randint(1, 3), rng.randint(1, 3), rng.randint(1, 3)
        sa, sb = batch + [m, k], batch + [k, q]
        ta = p.tensor(sa, gen(prod(sa)), tracked=tr())
        tb = p.tensor(sb, gen(prod(sb)), tracked=tr())
        y = p.bind('matmul %s %s' % (ta, tb))
        finish(p, y, batch + [m, q], rng, [ta, tb])
    elif op == 'concat':
        if not shape: shape = [2]
        dim = rng.randrange(len(shape))
        k = rng.randint(2, 3)
        names, tot = [], 0
        for j in range(k):
            s = list(shape); s[dim] = rng.randint(1, 2); tot += s[dim]
            names.append(p.tensor(s, gen(prod(s)), tracked=tr()))
        if rng.random() < 0.3:
            names[-1] = names[0]; tot = None   # the same operand twice
        y = p.bind('concat %s %d' % (','.join(names), dim))
        if tot is None:
            p.add('bp %s' % y)
            for l in set(names): p.add('obs %s' % l)
        else:
            ys = list(shape); ys[dim] = tot
            finish(p, y, ys, rng, names)
    elif op == 'slice':
        x = p.tensor(shape, gen(n), tracked=True)
        idx = rand_index(rng, shape)
        y = p.bind('slice %s %s' % (x, ranges(idx)))
        finish(p, y, sliced_shape(shape, idx), rng, [x])
        p.tag('partial' if len(idx) < len(shape) else 'full')
    elif op == 'patch':
        sshape = [rng.randint(1, d) for d in shape]
        idx = []
        for j in range(rng.randint(0, len(shape))):
            if rng.random() < 0.3:
                idx.append((0, 0))
            else:
                a = rng.randint(0, shape[j] - sshape[j]); idx.append((a, a + sshape[j]))
        x = p.tensor(shape, gen(n), tracked=tr())
        s = p.tensor(sshape, gen(prod(sshape)), tracked=tr())
        y = p.bind('patch %s %s %s' % (x, ranges(idx), s))
        finish(p, y, shape, rng, [x, s])
        p.tag('patch-idx%d/%d' % (len(idx), len(shape)), 'smaller' if sshape != shape else 'same')
    elif op == 'transpose':
        if len(shape) < 2: shape = shape + [2] * (2 - len(shape))
        x = p.tensor(shape, gen(prod(shape)), tracked=True)
        y = p.bind('transpose %s' % x)
        finish(p, y, shape[:-2] + [shape[-1], shape[-2]], rng, [x])
    elif op == 'reshape':
        x = p.tensor(shape, gen(n), tracked=True)
        f = rng.choice(factorizations(n))
        y = p.bind('reshape %s %s' % (x, ints(f)))
        finish(p, y, f, rng, [x])
    elif op == 'unsqueeze':
        x = p.tensor(shape, gen(n), tracked=True)
        d = rng.randint(0, len(shape))
        y = p.bind('unsqueeze %s %d' % (x, d))
        finish(p, y, shape[:d] + [1] + shape[d:], rng, [x])
    elif op == 'squeeze':
        d = rng.randint(0, len(shape))
        shape = shape[:d] + [1] + shape[d:]
        x = p.tensor(shape, gen(n), tracked=True)
        y = p.bind('squeeze %s %d' % (x, d))
        finish(p, y, shape[:d] + shape[d + 1:], rng, [x])
    elif op == 'flatten':
        if not shape: shape = [2]
        x = p.tensor(shape, gen(prod(shape)), tracked=True)
        d = rng.randrange(len(shape))
        y = p.bind('flatten %s %d' % (x, d))
        finish(p, y, shape[:d] + [prod(shape[d:])], rng, [x])
    elif op.endswith('along'):
        if not shape: shape = [3]
        n = prod(shape)
        vals = distinct(n)
        d = rng.randrange(len(shape))
        if op in ('maxalong', 'minalong') and i % 3 == 2 and shape[d] >= 2:
            # near-ties inside a fibre: a runner-up a hair away from the extremum (not a tie for the code's equality)
            stride = prod(shape[d + 1:])
            for base in range(n):
                if (base // stride) % shape[d] == 0 and rng.random() < 0.7:
                    fibre = [base + k * stride for k in range(shape[d])]
                    ext = max(fibre, key=lambda q: vals[q]) if op == 'maxalong' else min(fibre, key=lambda q: vals[q])
                    other = rng.choice([q for q in fibre if q != ext])
                    vals[other] = near_tie(rng, vals[ext])
            p.tag('near-ties')
        x = p.tensor(shape, vals, tracked=True)
        y = p.bind('%s %s %d' % (op, x, d))
        finish(p, y, shape[:d] + shape[d + 1:], rng, [x])
        p.tag('fibre%d' % shape[d])
    else:
        return None
    return p

C02_OPS = (['slice', 'patch', 'transpose', 'reshape', 'unsqueeze', 'squeeze', 'flatten'] + [a + 'along' for a in ALONG] +
           ['scale', 'pow'] + UNARY + ['elmax', 'elmin', 'add', 'sub', 'mul', 'div', 'dot', 'matmul', 'concat'])

def gen_C02(rng, tier):
    per = 25 if tier == 'quick' else 400
    progs = []
    for op in C02_OPS:
        for i in range(per):
            p = c02_case(rng, op, i, tier)
            if p: progs.append(p)
    return progs

def gen_C07(rng, tier):
    progs = []
    cnt = 250 if tier == 'quick' else 4000
    for i in range(cnt):
        p = Prog('c07_x%d' % i)
        target = rand_shape(rng, 4, 3, 0)
        src = broadcast_sources(rng, target)
        x = p.tensor(src, rand_vals(rng, prod(src)), tracked=True)
        y = p.bind('broadcast %s %s' % (x, ints(target)))
        finish(p, y, target, rng, [x])
        fac = prod(target) // max(1, prod(src))
        p.tag('explicit', 'factor>1' if fac > 1 else 'factor1')
        progs.append(p)
    for i in range(cnt):
        op = rng.choice(['add', 'sub', 'mul', 'div'])
        p = Prog('c07_%s%d' % (op, i))
        target = rand_shape(rng, 4, 3, 0)
        sa, sb = broadcast_sources(rng, target), broadcast_sources(rng, target)
        bs = bshape(sa, sb)
        a = p.tensor(sa, [0.5 + 0.25 * j for j in range(prod(sa))], tracked=rng.random() < 0.8)
        b = p.tensor(sb, [1.0 + 0.5 * j for j in range(prod(sb))], tracked=rng.random() < 0.8)
        y = p.bind('%s %s %s' % (op, a, b))
        finish(p, y, bs, rng, [a, b])
        p.tag('implicit-' + op, 'factor>1' if (prod(bs) > prod(sa) or prod(bs) > prod(sb)) else 'factor1')
        progs.append(p)
    # several results over the SAME tracked operands (the same expansions requested repeatedly), all built first and
    # then back-propagated one after the other: the operand's gradient is the sum of the per-graph gradients
    for i in range(cnt // 2):
        p = Prog('c07_multi%d' % i)
        target = rand_shape(rng, 3, 3, 1)
        sx = broadcast_sources(rng, target)
        x = p.tensor(sx, [0.5 + 0.25 * j for j in range(prod(sx))], tracked=True)
        roots = []
        for k in range(rng.randint(2, 3)):
            op = rng.choice(['add', 'sub', 'mul', 'div', 'explicit'])
            c = p.tensor(target, [1.0 + 0.5 * ((j + 3 * k) % 7) for j in range(prod(target))], tracked=rng.random() < 0.3)
            if op == 'explicit':
                e = p.bind('broadcast %s %s' % (x, ints(target))); y = p.bind('mul %s %s' % (e, c))
            else:
                y = p.bind('%s %s %s' % (op, x, c))
            roots.append(y)
        between = rng.random() < 0.5
        for y in roots:
            p.add('bp %s' % y)
            if between: p.add('obs %s' % x)
        p.add('obs %s' % x)
        p.tag('several-roots-same-operand', 'factor>1' if prod(target) > prod(sx) else 'factor1')
        progs.append(p)
    for i in range(cnt // 2):
        p = Prog('c07_mm%d' % i)
        batch = rand_shape(rng, 2, 2, 0)
        ba, bb = broadcast_sources(rng, batch), broadcast_sources(rng, batch)
        m, k, q = rng.randint(1, 2), rng.randint(1, 3), rng.randint(1, 2)
        sa, sb = ba + [m, k], bb + [k, q]
        a = p.tensor(sa, rand_vals(rng, prod(sa)), tracked=True)
        b = p.tensor(sb, rand_vals(rng, prod(sb)), tracked=True)
        y = p.bind('matmul %s %s' % (a, b))
        finish(p, y, bshape(ba, bb) + [m, q], rng, [a, b])
        p.tag('implicit-matmul')
        progs.append(p)
        p = Prog('c07_dot%d' % i)
        lead = rand_shape(rng, 2, 2, 0)
        la, lb = broadcast_sources(rng, lead), broadcast_sources(rng, lead)
        k = rng.randint(1, 3)
        sa, sb = la + [k], lb + [k]
        a = p.tensor(sa, rand_vals(rng, prod(sa)), tracked=True)
        b = p.tensor(sb, rand_vals(rng, prod(sb)), tracked=True)
        y = p.bind('dot %s %s' % (a, b))
        finish(p, y, bshape(la, lb), rng, [a, b])
        p.tag('implicit-dot')
        progs.append(p)
    return progs

# ------------------------------------------------------------------ C01: DAGs

SAFE_UN = ['sin', 'cos', 'tanh', 'sinh']

def dag_prog(rng, name, nnodes, with_broadcast, tier):
    """random DAG; every new node may use ANY earlier node (fan-out, reconvergence, the same operand twice in
       one operation); operations change shapes (concat, slice, patch, reshape, transpose, reductions, matmul)"""
    p = Prog(name)
    shape = rand_shape(rng, 3, 3, 0)
    n = prod(shape)
    nodes = []      # names
    shp = {}        # name -> shape
    class UB(dict):
        # upper bound on |element|: sin / cos are applied only to moderate values (their conditioning grows with
        # |x|, and libm results differ in the last ulp between Go and glibc); unknown names count as small constants
        def __missing__(self, k): return 3.0
    ub = UB()
    nleaves = rng.randint(1, 3)
    for j in range(nleaves):
        tracked = (j == 0) or rng.random() < 0.7
        t = p.tensor(shape, [rng.uniform(0.5, 1.5) for _ in range(n)], tracked=tracked)
        nodes.append(t); shp[t] = list(shape); ub[t] = 1.5
    leaves = list(nodes)
    used = {}
    def pick():
        a = rng.choice(nodes[-4:] if rng.random() < 0.6 else nodes)
        used[a] = used.get(a, 0) + 1
        return a
    def same_shape(a):
        c = [x for x in nodes if shp[x] == shp[a]]
        b = rng.choice(c)
        used[b] = used.get(b, 0) + 1
        return b
    for j in range(nnodes):
        kind = rng.random()
        a = pick()
        sa = shp[a]
        r = None
        if kind < 0.18:
            fn = rng.choice(['sin', 'cos', 'tanh']) if ub[a] <= 40 else 'tanh'
            r = p.bind('%s %s' % (fn, a)); shp[r] = list(sa); ub[r] = 1.0
        elif kind < 0.25:
            c = rng.choice([0.5, -1.0, 2.0, 1.25])
            r = p.bind('scale %s %s' % (a, f2b(c))); shp[r] = list(sa); ub[r] = abs(c) * ub[a]
        elif kind < 0.29:
            if ub[a] > 1e3:
                r = p.bind('tanh %s' % a); ub[r] = 1.0
            else:
                r = p.bind('pow %s %s' % (a, f2b(2.0))); ub[r] = ub[a] ** 2
            shp[r] = list(sa)
        elif kind < 0.60:
            b = same_shape(a)
            op = rng.choice(['add', 'sub', 'mul', 'add', 'mul', 'elmax'])
            if op == 'mul' and ub[a] * ub[b] > 1e6: op = 'add'
            if op == 'elmax':
                # against a fresh random constant: two graph nodes can be equal up to the last ulp of a libm call
                # (a + b - a vs b), and Go's math and glibc then pick different sides of the tie
                k = p.tensor(sa, [rng.uniform(-1.5, 1.5) for _ in range(prod(sa))]); shp[k] = list(sa); ub[k] = 1.5
                b = k
            r = p.bind('%s %s %s' % (op, a, b)); shp[r] = list(sa)
            ub[r] = ub[a] * ub[b] if op == 'mul' else (max(ub[a], ub[b]) if op == 'elmax' else ub[a] + ub[b])
        elif kind < 0.70 and sa and prod(sa) <= 150:
            # concat of 2-3 operands, possibly the same one twice, possibly an untracked constant first
            d = rng.randrange(len(sa))
            ops = [a]
            for _ in range(rng.randint(1, 2)):
                c = [x for x in nodes if len(shp[x]) == len(sa) and all(shp[x][i] == sa[i] for i in range(len(sa)) if i != d)]
                b = rng.choice(c); used[b] = used.get(b, 0) + 1; ops.append(b)
            if rng.random() < 0.4: ops.append(a); used[a] += 1
            if rng.random() < 0.3:
                cs = list(sa); cs[d] = rng.randint(1, 2)
                k = p.tensor(cs, [rng.uniform(-1, 1) for _ in range(prod(cs))]); shp[k] = cs
                ops.insert(rng.randrange(len(ops)), k)
            rng.shuffle(ops)
            r = p.bind('concat %s %d' % (','.join(ops), d))
            rs = list(sa); rs[d] = sum(shp[x][d] for x in ops); shp[r] = rs
            p.tag('concat')
            # a non-uniform weighting so that block mix-ups become visible
            w = p.tensor(rs, [0.5 + 0.25 * (i % 7) for i in range(prod(rs))]); shp[w] = rs
            r2 = p.bind('mul %s %s' % (r, w)); shp[r2] = rs
            ub[r] = max(ub[x] for x in ops); ub[r2] = 2.0 * ub[r]
            nodes.append(r); r = r2
        elif kind < 0.76 and sa:
            idx = rand_index(rng, sa)
            r = p.bind('slice %s %s' % (a, ranges(idx))); shp[r] = sliced_shape(sa, idx); p.tag('slice'); ub[r] = ub[a]
        elif kind < 0.80 and sa:
            d = rng.randrange(len(sa))
            r = p.bind('%salong %s %d' % (rng.choice(['sum', 'mean', 'avg']), a, d)); shp[r] = sa[:d] + sa[d + 1:]; p.tag('reduce'); ub[r] = ub[a] * sa[d]
        elif kind < 0.84:
            f = rng.choice(factorizations(prod(sa), 3))
            r = p.bind('reshape %s %s' % (a, ints(f))); shp[r] = list(f); p.tag('reshape'); ub[r] = ub[a]
        elif kind < 0.88 and len(sa) >= 2:
            r = p.bind('transpose %s' % a); shp[r] = sa[:-2] + [sa[-1], sa[-2]]; p.tag('transpose'); ub[r] = ub[a]
            if rng.random() < 0.5 and ub[a] < 1e3 and prod(sa[:-2]) * sa[-2] * sa[-2] <= 600 and prod(sa) <= 600:
                m = p.bind('matmul %s %s' % (a, r)); shp[m] = sa[:-2] + [sa[-2], sa[-2]]; ub[m] = ub[a] * ub[a] * sa[-1]
                nodes.append(r); used[r] = 1; r = m; p.tag('matmul')
        elif kind < 0.92 and sa:
            # patch a block of `a` with a slice of another same-shape node
            b = same_shape(a)
            blk = [(0, rng.randint(1, sa[0]))]
            s_ = p.bind('slice %s %s' % (b, ranges(blk))); shp[s_] = sliced_shape(sa, blk)
            r = p.bind('patch %s %s %s' % (a, ranges(blk if rng.random() < 0.5 else []), s_)) if blk[0][1] == sa[0] or True else None
            shp[r] = list(sa); nodes.append(s_); p.tag('patch'); ub[s_] = ub[b]; ub[r] = max(ub[a], ub[b])
        elif with_broadcast and sa:
            d = rng.randrange(len(sa))
            s_ = p.bind('sumalong %s %d' % (a, d)); shp[s_] = sa[:d] + sa[d + 1:]
            u = p.bind('unsqueeze %s %d' % (s_, d)); shp[u] = sa[:d] + [1] + sa[d + 1:]
            r = p.bind('mul %s %s' % (a, u)); shp[r] = list(sa)      # implicit expansion of u
            ub[s_] = ub[a] * sa[d]; ub[u] = ub[s_]; ub[r] = ub[a] * ub[u]
            nodes.append(s_); nodes.append(u)
            p.tag('has-broadcast')
        else:
            b = same_shape(a)
            r = p.bind('add %s %s' % (a, b)); shp[r] = list(sa); ub[r] = ub[a] + ub[b]
        nodes.append(r)
    fan = sum(1 for v in used.values() if v > 1)
    p.tag('fanout%d' % min(fan, 5), 'nodes%d' % (10 * (nnodes // 10)))
    return p, nodes, leaves

def gen_C01(rng, tier):
    progs = []
    cnt = 300 if tier == 'quick' else 6000
    for i in range(cnt):
        nn = rng.randint(3, 25 if tier == 'quick' else 60)
        p, nodes, leaves = dag_prog(rng, 'c01_g%d' % i, nn, with_broadcast=(i % 5 == 0), tier=tier)
        root = nodes[-1] if rng.random() < 0.7 else rng.choice(nodes)
        p.add('bp %s' % root)
        for x in nodes:
            p.add('obs %s' % x)
        progs.append(p)
    # sequences of back-propagations over graphs that share only leaves
    for i in range(cnt // 4):
        p = Prog('c01_s%d' % i)
        shape = rand_shape(rng, 2, 3, 0)
        n = prod(shape)
        leaves = [p.tensor(shape, [rng.uniform(0.5, 1.5) for _ in range(n)], tracked=True) for _ in range(2)]
        for g in range(rng.randint(2, 3)):
            cur = list(leaves)
            for j in range(rng.randint(2, 8)):
                a, b = rng.choice(cur), rng.choice(cur)
                k = rng.random()
                if k < 0.3: r = p.bind('%s %s' % (rng.choice(SAFE_UN), a))
                else: r = p.bind('%s %s %s' % (rng.choice(['add', 'sub', 'mul']), a, b))
                cur.append(r)
            p.add('bp %s' % cur[-1])
            for l in leaves: p.add('obs %s' % l)
        p.tag('sequence')
        progs.append(p)
    # chains of diamonds: rule applications must stay linear
    for depth in ([8, 30, 48] if tier == 'quick' else [4, 8, 16, 30, 40, 48, 60]):
        p = Prog('c01_diamond%d' % depth)
        x = p.tensor([2], [1.0, 2.0], tracked=True)
        y = x
        for j in range(depth):
            y = p.bind('add %s %s' % (y, y))
        p.add('bp %s' % y)
        p.add('obs %s' % x)
        p.tag('diamond-chain')
        progs.append(p)
    # the diamond of the design: x -> a -> (b, c) -> d
    p = Prog('c01_diamond_min')
    x = p.tensor([], [3.0], tracked=True)
    a = p.bind('scale %s %s' % (x, f2b(2.0)))
    b = p.bind('scale %s %s' % (a, f2b(3.0)))
    c = p.bind('scale %s %s' % (a, f2b(5.0)))
    d = p.bind('add %s %s' % (b, c))
    p.add('bp %s' % d)
    for t in (x, a, b, c, d): p.add('obs %s' % t)
    p.tag('diamond-min')
    progs.append(p)
    return progs

# ------------------------------------------------------------------ C08: tracking state machine

def gen_C08(rng, tier):
    progs = []
    cnt = 300 if tier == 'quick' else 5000
    for i in range(cnt):
        wild = (i % 4 == 3)      # histories outside the property's provisos: code-vs-model only
        p = Prog('c08_%s%d' % ('w' if wild else 'h', i))
        shape = rand_shape(rng, 2, 2, 0)
        n = prod(shape)
        live = []
        spent_interior = set()
        def newleaf():
            t = p.tensor(shape, [rng.uniform(0.5, 1.5) for _ in range(n)], tracked=rng.random() < 0.6)
            live.append(t); return t
        newleaf(); newleaf()
        steps = rng.randint(5, 25 if tier == 'quick' else 60)
        for s in range(steps):
            k = rng.random()
            if k < 0.1:
                newleaf()
            elif k < 0.55:
                a, b = rng.choice(live), rng.choice(live)
                kind = rng.choice(['un', 'bin', 'cmp', 'cat', 'elmax'])
                if kind == 'un': r = p.bind('%s %s' % (rng.choice(['sin', 'cos', 'tanh']), a))
                elif kind == 'bin': r = p.bind('%s %s %s' % (rng.choice(['add', 'sub', 'mul']), a, b))
                elif kind == 'cmp':
                    # against itself (exact tie) or a fresh constant: two libm-derived nodes can differ in the last ulp
                    kc = a if rng.random() < 0.3 else p.tensor(shape, [rng.uniform(-1.5, 1.5) for _ in range(n)])
                    r = p.bind('%s %s %s' % (rng.choice(['eq', 'ne', 'gt', 'ge', 'lt', 'le']), a, kc))
                elif kind == 'elmax':
                    # second operand: a fresh constant (near-ties between libm-derived nodes are ill-conditioned)
                    kc = p.tensor(shape, [rng.uniform(-1.5, 1.5) for _ in range(n)])
                    r = p.bind('%s %s %s' % (rng.choice(['elmax', 'elmin']), a, kc))
                else:
                    if shape: r = p.bind('concat %s,%s 0' % (a, b)); r2 = p.bind('slice %s 0:%d' % (r, shape[0])); r = r2
                    else: r = p.bind('scale %s %s' % (a, f2b(2.0)))
                live.append(r)
            elif k < 0.75:
                t = rng.choice(live)
                p.add('bp %s' % t)
                p.tag('bp')
            elif k < 0.85:
                t = rng.choice(live)
                p.add('reset %s %d' % (t, rng.randint(0, 1)))
                p.tag('reset')
            else:
                t = rng.choice(live)
                g = p.bind('grad %s' % t, 'g')
                if rng.random() < 0.5:
                    # use the gradient tensor in further computation (must be untracked)
                    r = p.bind('mul %s %s' % (g, g)); p.add('obs %s' % r)
                p.tag('grad-handle')
            if rng.random() < 0.5:
                p.add('obs %s' % rng.choice(live))
        for t in live:
            p.add('obs %s' % t)
        p.tag('wild' if wild else 'history')
        progs.append(p)
    # the same graph back-propagated again and again, with resets of leaves / interior tensors / the root in between:
    # edges look their target's context up at walk time, so a reset tensor is seen with its new context by the next walk
    for i in range(cnt // 3):
        p = Prog('c08_r%d' % i)
        shape = rand_shape(rng, 2, 2, 0)
        n = prod(shape)
        leaves = [p.tensor(shape, [rng.uniform(0.5, 1.5) for _ in range(n)], tracked=rng.random() < 0.8) for _ in range(2)]
        nodes = list(leaves)
        for j in range(rng.randint(2, 7)):
            a, b = rng.choice(nodes), rng.choice(nodes)
            k = rng.random()
            if k < 0.35: r = p.bind('%s %s' % (rng.choice(['sin', 'cos', 'tanh', 'exp']), a))
            elif k < 0.5: r = p.bind('scale %s %s' % (a, f2b(rng.choice([2.0, -1.0, 0.5]))))
            elif k < 0.9: r = p.bind('%s %s %s' % (rng.choice(['add', 'sub', 'mul']), a, b))
            else:
                kc = p.tensor(shape, [rng.uniform(-1.5, 1.5) for _ in range(n)])
                r = p.bind('%s %s %s' % (rng.choice(['elmax', 'elmin']), a, kc))
            nodes.append(r)
        roots = [nodes[-1]] + ([rng.choice(nodes[2:])] if len(nodes) > 3 else [])
        p.add('bp %s' % roots[0])
        for t in nodes: p.add('obs %s' % t)
        for rd in range(rng.randint(1, 4)):
            for _ in range(rng.randint(0, 2)):
                p.add('reset %s %d' % (rng.choice(nodes), rng.randint(0, 1)))
            p.add('bp %s' % rng.choice(roots))
            for t in nodes: p.add('obs %s' % t)
        p.tag('repeated-bp-with-resets')
        progs.append(p)
    return progs


def exhaustive_flag_states(tier):
    """EVERY combination of operand gradient-context states with every public operation, on one fixed small shape:
    the flag logic (tracked / spent / gradient / edges) depends on the states only, so this enumerates its whole input space.
    Operand states: fresh tracked leaf, fresh untracked leaf, tracked result, spent leaf (after a back-propagation), spent
    interior result, result computed from a spent tensor, gradient tensor handed out by Gradient(), tensor reset to
    tracked, tensor reset to untracked."""
    progs = []
    shape = [2, 2]
    vals = [0.5, 0.75, 1.25, 1.5]
    STATES = ['T', 'U', 'Tres', 'spent', 'spent-int', 'from-spent', 'gradient', 'resetT', 'resetU']
    def make(p, st):
        if st == 'T': return p.tensor(shape, vals, tracked=True)
        if st == 'U': return p.tensor(shape, vals, tracked=False)
        if st == 'Tres':
            a = p.tensor(shape, vals, tracked=True); return p.bind('scale %s %s' % (a, f2b(2.0)))
        if st in ('spent', 'spent-int', 'from-spent', 'gradient', 'resetT', 'resetU'):
            a = p.tensor(shape, vals, tracked=True)
            m = p.bind('scale %s %s' % (a, f2b(2.0)))
            z = p.bind('mul %s %s' % (m, m))
            p.add('bp %s' % z)
            if st == 'spent': return a
            if st == 'spent-int': return m
            if st == 'from-spent': return p.bind('scale %s %s' % (m, f2b(0.5)))
            if st == 'gradient': return p.bind('grad %s' % a, 'g')
            p.add('reset %s %d' % (a, 1 if st == 'resetT' else 0)); return a
    UN = ['scale $A %s' % f2b(2.0), 'pow $A %s' % f2b(2.0), 'exp $A', 'log $A', 'sin $A', 'cos $A', 'tan $A', 'sinh $A', 'cosh $A', 'tanh $A',
          'transpose $A', 'reshape $A 4', 'unsqueeze $A 0', 'squeeze $A 0', 'flatten $A 0', 'broadcast $A 2,2,2', 'slice $A 0:1',
          'sumalong $A 0', 'maxalong $A 1', 'minalong $A 0', 'avgalong $A 1', 'varalong $A 0', 'stdalong $A 1', 'meanalong $A 0',
          # argument forms under which the operation is the identity on the values (where a shortcut would sit)
          'reshape $A 2,2', 'broadcast $A 2,2', 'slice $A -', 'slice $A 0:2,0:2', 'slice $A 0:0', 'flatten $A 1',
          'scale $A %s' % f2b(1.0), 'scale $A %s' % f2b(0.0), 'pow $A %s' % f2b(1.0), 'pow $A %s' % f2b(0.0)]
    BINOPS = ['add', 'sub', 'mul', 'div', 'dot', 'matmul', 'elmax', 'elmin', 'eq', 'ne', 'gt', 'ge', 'lt', 'le']
    for st in STATES:
        for ui, u in enumerate(UN):
            p = Prog('fs_u_%s_%d' % (st, ui))
            a = make(p, st)
            r = p.bind(u.replace('$A', a)); p.add('obs %s' % r)
            p.add('bp %s' % r); p.add('obs %s' % a); p.add('obs %s' % r)
            r2 = p.bind('scale %s %s' % (r, f2b(3.0))); p.add('obs %s' % r2)
            p.tag('exhaustive-flag-states'); progs.append(p)
    # gradient tensors handed out by Gradient() after a back-propagation through EVERY kind of operation (whatever rule
    # produced them, they are untracked, and so is everything computed from them; back-propagating from such a result
    # changes nothing)
    GU = UN + ['pow $A %s' % f2b(0.0), 'pow $A %s' % f2b(1.0), 'scale $A %s' % f2b(0.0), 'varalong $B 1', 'stdalong $B 1', 'maxalong $B 1',
               'sumalong $B 1', 'squeeze $B 1', 'unsqueeze $B 1']
    for gi, u in enumerate(GU):
        for first in (True, False):
            p = Prog('fs_g_%d_%d' % (gi, first))
            a = p.tensor(shape, vals, tracked=True)
            b = p.tensor([2, 1], [0.5, 1.5], tracked=True)
            src = b if '$B' in u else a
            y = p.bind(u.replace('$A', a).replace('$B', b))
            if not first:
                # another consumer delivers its contribution before this one
                y0 = p.bind('scale %s %s' % (src, f2b(3.0))); p.add('bp %s' % y0)
            p.add('bp %s' % y)
            g = p.bind('grad %s' % src, 'g'); p.add('obs %s' % g)
            r = p.bind('mul %s %s' % (g, g)); p.add('obs %s' % r)
            fresh = p.tensor([2, 2] if src == a else [2, 1], vals if src == a else [0.25, 0.75], tracked=True)
            r2 = p.bind('add %s %s' % (g, fresh)); p.add('obs %s' % r2)
            p.add('bp %s' % r); p.add('obs %s' % src); p.add('obs %s' % g)
            p.add('bp %s' % r2); p.add('obs %s' % src); p.add('obs %s' % fresh)
            p.tag('exhaustive-flag-states', 'gradient-of-each-rule'); progs.append(p)
    for sa in STATES:
        for sb in STATES:
            for o in BINOPS + ['concat', 'patch', 'patch-full', 'patch-full-omitted', 'concat0']:
                for same in ([False, True] if sa == sb else [False]):
                    p = Prog('fs_b_%s_%s_%s%s' % (sa, sb, o, '_same' if same else ''))
                    a = make(p, sa)
                    b = a if same else make(p, sb)
                    if o == 'concat': r = p.bind('concat %s,%s 1' % (a, b))
                    elif o == 'concat0': r = p.bind('concat %s,%s 0' % (a, b))
                    elif o == 'patch-full': r = p.bind('patch %s 0:2,0:2 %s' % (a, b))      # the source covers the whole target
                    elif o == 'patch-full-omitted': r = p.bind('patch %s %s %s' % (a, '-' if sa < sb else '0:0', b))
                    elif o == 'patch':
                        c = p.bind('slice %s 0:1' % b); r = p.bind('patch %s 1:2 %s' % (a, c))
                    else: r = p.bind('%s %s %s' % (o, a, b))
                    p.add('obs %s' % r)
                    p.add('bp %s' % r); p.add('obs %s' % a); p.add('obs %s' % b); p.add('obs %s' % r)
                    r2 = p.bind('mul %s %s' % (r, r)); p.add('obs %s' % r2)
                    p.add('bp %s' % r2); p.add('obs %s' % r2); p.add('obs %s' % a)
                    p.tag('exhaustive-flag-states'); progs.append(p)
    return progs


def exhaustive_backward(tier):
    """EVERY differentiable operation applied once to EVERY small shape (rank <= 2, sizes <= 3; quick) or
    (rank <= 3, sizes <= 3; thorough), with every valid argument in that scope (every dim, every valid range list,
    every ordered pair of shapes for the two-operand operations), back-propagated under a non-uniform upstream
    weighting; the gradients of all operands are compared."""
    import itertools
    progs = []
    shapes = list(all_shapes(2, 3)) if tier == 'quick' else list(all_shapes(3, 3))
    def vals(n, off=0.0):
        return [0.6 + off + 0.35 * j for j in range(n)]
    def wts(n):
        return [(-1.5, 0.5, 2.0, 1.0, -0.75, 3.0)[j % 6] + 0.125 * (j // 6) for j in range(n)]
    def case(name, build):
        p = Prog(name)
        out = build(p)
        if out is None:
            return
        y, yshape, leaves = out
        if yshape is None:
            # shape of the result is not predicted here: back-propagate the result itself
            p.add('obs %s' % y); p.add('bp %s' % y)
        else:
            g = p.tensor(yshape, wts(prod(yshape)))
            z = p.bind('mul %s %s' % (y, g)); p.add('bp %s' % z)
        for l in leaves:
            p.add('obs %s' % l)
        p.tag('exhaustive-backward'); progs.append(p)
    UN = ['scale $A %s' % f2b(2.5), 'scale $A %s' % f2b(0.0), 'pow $A %s' % f2b(2.0), 'pow $A %s' % f2b(0.0), 'pow $A %s' % f2b(-1.0),
          'pow $A %s' % f2b(0.5), 'exp $A', 'log $A', 'sin $A', 'cos $A', 'tan $A', 'sinh $A', 'cosh $A', 'tanh $A']
    for si, sh in enumerate(shapes):
        n = prod(sh); r = len(sh)
        for ui, u in enumerate(UN):
            case('xb_u%d_%d' % (si, ui), lambda p, u=u: (lambda a: (p.bind(u.replace('$A', a)), sh, [a]))(p.tensor(sh, vals(n), tracked=True)))
        # shape operations: results of unknown shape are back-propagated directly
        ops = ['flatten $A %d' % d for d in range(r)] + ['unsqueeze $A %d' % d for d in range(r + 1)]
        ops += ['squeeze $A %d' % d for d in range(r) if sh[d] == 1]
        ops += ['%s $A %d' % (al, d) for d in range(r) for al in ('sumalong', 'maxalong', 'minalong', 'avgalong', 'meanalong', 'varalong', 'stdalong')]
        if r >= 2: ops.append('transpose $A')
        for tg in itertools.product([1, 2, 3, 4, 6, 9], repeat=2):
            if tg[0] * tg[1] == n: ops.append('reshape $A %d,%d' % tg)
        ops.append('reshape $A %d' % n)
        for lead in ([], [2], [1, 3]):
            for mask in itertools.product([0, 1], repeat=r):
                tgt = lead + [d if (m == 0 or d != 1) else 3 for d, m in zip(sh, mask)]
                if prod(tgt) <= 200: ops.append('broadcast $A %s' % (ints(tgt) if tgt else '-'))
        for ln in range(0, r + 1):
            per = []
            for j in range(ln):
                per.append([(a, b) for a in range(sh[j]) for b in range(a + 1, sh[j] + 1)] + [(0, 0)])
            for rl in itertools.product(*per):
                ops.append('slice $A %s' % (ranges(list(rl)) if ln else '-'))
        for oi, o in enumerate(dict.fromkeys(ops)):
            # distinct values so that Max/Min have a unique position; plus one program with ties
            case('xb_s%d_%d' % (si, oi), lambda p, o=o: (lambda a: (p.bind(o.replace('$A', a)), None, [a]))(p.tensor(sh, vals(n), tracked=True)))
            if o.startswith(('maxalong', 'minalong')):
                case('xb_st%d_%d' % (si, oi), lambda p, o=o: (lambda a: (p.bind(o.replace('$A', a)), None, [a]))(p.tensor(sh, [1.0] * n, tracked=True)))
    BINOPS = ['add', 'sub', 'mul', 'div', 'dot', 'matmul', 'elmax', 'elmin']
    for ai, sa in enumerate(shapes):
        for bi, sb in enumerate(shapes):
            for o in BINOPS:
                for tr in ((True, True), (True, False), (False, True)):
                    def build(p, sa=sa, sb=sb, o=o, tr=tr):
                        a = p.tensor(sa, vals(prod(sa)), tracked=tr[0])
                        b = p.tensor(sb, vals(prod(sb), 0.17), tracked=tr[1])
                        return (p.bind('%s %s %s' % (o, a, b)), None, [a, b])
                    case('xb_b%d_%d_%s_%d%d' % (ai, bi, o, tr[0], tr[1]), build)
            for d in range(0, max(len(sa), 1)):
                def build(p, sa=sa, sb=sb, d=d):
                    a = p.tensor(sa, vals(prod(sa)), tracked=True)
                    b = p.tensor(sb, vals(prod(sb), 0.17), tracked=(d % 2 == 0))
                    return (p.bind('concat %s,%s,%s %d' % (a, b, a, d)), None, [a, b])
                case('xb_c%d_%d_%d' % (ai, bi, d), build)
            # Patch of a block of b's shape into a: every offset that fits
            if len(sa) == len(sb) and all(x <= y for x, y in zip(sb, sa)) and sa:
                for offs in itertools.product(*[range(0, y - x + 1) for x, y in zip(sb, sa)]):
                    rl = [(o_, o_ + x) for o_, x in zip(offs, sb)]
                    def build(p, sa=sa, sb=sb, rl=rl):
                        a = p.tensor(sa, vals(prod(sa)), tracked=True)
                        b = p.tensor(sb, vals(prod(sb), 0.17), tracked=True)
                        return (p.bind('patch %s %s %s' % (a, ranges(rl), b)), sa, [a, b])
                    case('xb_p%d_%d_%s' % (ai, bi, '_'.join(map(str, offs))), build)
    return progs


def deep_shared(tier):
    """seed-independent programs: deep chains in which every step reaches the previous tensor over two or more paths (x + x,
    h + tanh(h), h * h, a skip connection through Concat / Slice) — the number of PATHS from the root doubles per level while
    the number of tensors grows linearly; BackPropagate applies every backward rule once per tensor, so these finish at once
    (the harness puts a wall-clock budget on every command; `timeout` is a status the model never produces)"""
    progs = []
    depths = [24, 40, 64] if tier == 'quick' else [24, 40, 64, 96, 128]
    for kind in ('add-self', 'add-tanh', 'mul-self', 'sub-scale', 'concat-skip'):
        for depth in depths:
            p = Prog('deep_%s_%d' % (kind.replace('-', '_'), depth))
            x0 = p.tensor([2], [0.75, -0.5], tracked=True)
            h = p.bind('scale %s %s' % (x0, f2b(1.0)))
            for lvl in range(depth):
                if kind == 'add-self':
                    h = p.bind('scale %s %s' % (p.bind('add %s %s' % (h, h)), f2b(0.5)))
                elif kind == 'add-tanh':
                    h = p.bind('scale %s %s' % (p.bind('add %s %s' % (h, p.bind('tanh %s' % h))), f2b(0.5)))
                elif kind == 'mul-self':
                    h = p.bind('mul %s %s' % (h, h))                     # values shrink quadratically towards 0
                elif kind == 'sub-scale':
                    h = p.bind('sub %s %s' % (p.bind('scale %s %s' % (h, f2b(1.5))), p.bind('scale %s %s' % (h, f2b(0.5)))))
                else:
                    c = p.bind('concat %s,%s 0' % (h, p.bind('scale %s %s' % (h, f2b(0.5)))))
                    h = p.bind('add %s %s' % (p.bind('slice %s 0:2' % c), p.bind('slice %s 2:4' % c)))
                    h = p.bind('scale %s %s' % (h, f2b(2.0 / 3.0)))
            p.add('bp %s' % h)
            p.add('obs %s' % x0); p.add('obs %s' % h)
            p.tag('deep-shared-chain', 'deep:' + kind, 'depth%d' % depth)
            progs.append(p)
    return progs
