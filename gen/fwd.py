"""Generators for the forward-value properties C03 C04 C05 C06."""
import itertools, random
from lib import *

def _idx_choices(rng, d):
    """a range choice for a dimension of size d: ('omit' handled by caller), {0,0}, or explicit sub-range"""
    subs = [(a, b) for a in range(d) for b in range(a + 1, d + 1)]
    return subs

def rand_index(rng, shape, allow_partial=True):
    """random valid Slice index: prefix of ranges, each {0,0} or explicit"""
    k = rng.randint(0, len(shape)) if allow_partial else len(shape)
    idx = []
    for i in range(k):
        if rng.random() < 0.25:
            idx.append((0, 0))
        else:
            idx.append(rng.choice(_idx_choices(rng, shape[i])))
    return idx

def sliced_shape(shape, idx):
    out = []
    for i, d in enumerate(shape):
        if i < len(idx) and idx[i] != (0, 0):
            out.append(idx[i][1] - idx[i][0])
        else:
            out.append(d)
    return out

def factorizations(n, max_rank=4):
    """some shapes with product n"""
    res = [[n], []] if n == 1 else [[n]]
    def rec(rem, cur):
        if len(cur) >= max_rank:
            return
        for d in range(1, rem + 1):
            if rem % d == 0:
                c = cur + [d]
                if prod(c) == n:
                    res.append(c)
                if d > 1 or len(c) < 3:
                    rec(rem // d, c)
    rec(n, [])
    uniq = []
    for r in res:
        if prod(r) == n and r not in uniq:
            uniq.append(r)
    return uniq

def shapes_for(rng, tier, count, max_rank=4, max_dim=3, min_rank=0, big_rank=6):
    """shape sample: low ranks enumerated first (shuffled by seed), plus some rank 5-6 with dims <= 2"""
    base = list(all_shapes(max_rank, max_dim, min_rank))
    rng.shuffle(base)
    big = [[rng.randint(1, 2) for _ in range(rng.randint(5, big_rank))] for _ in range(max(2, count // 8))]
    out = base[:count] + big
    if tier == 'thorough':
        out = base + big * 4
    return out

def big_shapes(rng, k):
    """shapes with 1024..4000 elements: size thresholds, long fibres, many rows"""
    cands = [[32, 32], [1100], [3, 400], [400, 3], [2, 2, 300], [1025, 1], [1, 1030], [33, 32], [4, 260], [2, 600, 1], [16, 8, 9], [1024]]
    rng.shuffle(cands)
    return cands[:k]

def gen_C06(rng, tier):
    progs = []
    n = 0
    count = 90 if tier == 'quick' else 400
    for shape in shapes_for(rng, tier, count):
        n += 1
        p = Prog('c06_%d' % n)
        vals = distinct_vals(rng, prod(shape), rng.choice(['int', 'frac']))
        t = p.tensor(shape, vals)
        p.add('nelems %s' % t)
        p.bind('shape %s' % t, 'd')
        p.add('obs %s' % t)
        p.tag('rank%d' % len(shape))
        # At
        for _ in range(3):
            idx = [rng.randrange(d) for d in shape]
            p.add('at %s %s' % (t, ints(idx) if idx else 'nil'))
        # Slice: several index combinations
        reps = 4 if tier == 'quick' else 10
        for _ in range(reps):
            idx = rand_index(rng, shape)
            s = p.bind('slice %s %s' % (t, ranges(idx)))
            p.add('obs %s' % s)
            p.tag('slice-partial' if len(idx) < len(shape) else 'slice-full')
            if any(r == (0, 0) for r in idx):
                p.tag('slice-00')
        # Patch: source block smaller than target, every mix of explicit / omitted / {0,0}
        for _ in range(reps):
            if not shape:
                src = p.tensor([], [77.0]); idx = []
            else:
                sshape = [rng.randint(1, d) for d in shape]
                idx = []
                k = rng.randint(0, len(shape))
                for i in range(k):
                    if rng.random() < 0.3:
                        idx.append((0, 0))
                    else:
                        a = rng.randint(0, shape[i] - sshape[i])
                        idx.append((a, a + sshape[i]))
                src = p.tensor(sshape, [100.0 + v for v in range(prod(sshape))])
            r = p.bind('patch %s %s %s' % (t, ranges(idx), src))
            p.add('obs %s' % r)
            p.tag('patch')
            # round trip: slicing what was patched returns the source
            if shape:
                full = [(idx[i][0], idx[i][1]) if i < len(idx) and idx[i] != (0, 0) else (0, sshape[i]) for i in range(len(shape))]
                back = p.bind('slice %s %s' % (r, ranges(full)))
                p.add('equals %s %s' % (back, src))
        # Reshape to every (some) factorization
        fs = factorizations(prod(shape))
        rng.shuffle(fs)
        for f in fs[:reps]:
            r = p.bind('reshape %s %s' % (t, ints(f)))
            p.add('obs %s' % r)
        # Flatten / Squeeze / UnSqueeze on every dim
        for d in range(len(shape)):
            r = p.bind('flatten %s %d' % (t, d)); p.add('obs %s' % r)
            if shape[d] == 1:
                r = p.bind('squeeze %s %d' % (t, d)); p.add('obs %s' % r)
        for d in range(len(shape) + 1):
            r = p.bind('unsqueeze %s %d' % (t, d)); p.add('obs %s' % r)
        progs.append(p)
    # Broadcast: explicit targets
    bc = 60 if tier == 'quick' else 600
    for i in range(bc):
        target = rand_shape(rng, 5 if i % 7 else 6, 3 if i % 7 else 2, 0)
        src = broadcast_sources(rng, target)
        p = Prog('c06_b%d' % i)
        t = p.tensor(src, distinct_vals(rng, prod(src)))
        r = p.bind('broadcast %s %s' % (t, ints(target)))
        p.add('obs %s' % r)
        p.tag('broadcast', 'lead%d' % (len(target) - len(src)), 'expand%d' % sum(1 for a, b in zip(src[::-1], target[::-1]) if a != b))
        progs.append(p)
    # Concat
    cc = 50 if tier == 'quick' else 500
    for i in range(cc):
        shape = rand_shape(rng, 4, 3, 1)
        dim = rng.randrange(len(shape))
        k = rng.randint(2, 4)
        p = Prog('c06_c%d' % i)
        names = []
        off = 0
        lens = []
        for j in range(k):
            s = list(shape); s[dim] = rng.randint(1, 3)
            lens.append(s[dim])
            names.append(p.tensor(s, [float(off + v) for v in range(prod(s))]))
            off += prod(s)
        r = p.bind('concat %s %d' % (','.join(names), dim))
        p.add('obs %s' % r)
        # slicing the concatenation returns the pieces
        base = 0
        for j in range(k):
            idx = [(0, 0)] * dim + [(base, base + lens[j])]
            back = p.bind('slice %s %s' % (r, ranges(idx)))
            p.add('equals %s %s' % (back, names[j]))
            base += lens[j]
        # results are operands of further Concat / Patch calls — twice from the same base — and every earlier result is
        # read again afterwards (a result must not share storage with what was built from it)
        if rng.random() < 0.6:
            made = [r]
            cur, csh = r, [v if j != dim else sum(lens) for j, v in enumerate(shape)]
            for rep in range(rng.randint(1, 3)):
                forks = []
                for f in range(2):
                    es = list(csh); es[dim] = rng.randint(1, 2)
                    e = p.tensor(es, [1000.0 * (rep + 1) + 100.0 * f + v for v in range(prod(es))])
                    forks.append((p.bind('concat %s,%s %d' % (cur, e, dim)), es[dim]))
                blk = [rng.randint(1, v) for v in csh]
                ptc = p.bind('patch %s %s %s' % (cur, ranges([(0, b) for b in blk]), p.tensor(blk, [-5.0 - v for v in range(prod(blk))])))
                made += [forks[0][0], forks[1][0], ptc]
                cur = forks[1][0]; csh = [v if j != dim else v + forks[1][1] for j, v in enumerate(csh)]
            for m in made: p.add('obs %s' % m)
            for nm in names: p.add('obs %s' % nm)
            p.tag('results-reused-as-operands')
        p.tag('concat', 'k%d' % k)
        progs.append(p)
    # constructors
    kc = 30 if tier == 'quick' else 200
    for i in range(kc):
        shape = rand_shape(rng, 5, 3, 0)
        p = Prog('c06_k%d' % i)
        v = rng.choice([0.0, -1.5, 3.25, 1e6])
        for cmd in ('full T %s %s' % (ints(shape), f2b(v)), 'zeros U %s' % ints(shape), 'ones nil %s' % ints(shape)):
            r = p.bind(cmd); p.add('obs %s' % r); p.add('nelems %s' % r)
        e = p.bind('eye T %d' % rng.randint(1, 6)); p.add('obs %s' % e)
        p.tag('construct')
        progs.append(p)
    for i in range(40 if tier == 'quick' else 600):
        progs.append(index_reuse(rng, 'c06_ir%d' % i))
    return progs

def index_reuse(rng, name):
    """the SAME caller-owned index (a `[]tensor.Range` variable with one range per dimension, some of them the whole-dimension
    range {0,0}) used for tensors whose sizes differ along those dimensions, and for Patch followed by Slice: the library may
    read the caller's slice but must leave it as it was"""
    p = Prog(name)
    r = rng.randint(2, 3)
    whole = [rng.random() < 0.5 for _ in range(r)]
    if not any(whole): whole[rng.randrange(r)] = True
    sa = [rng.randint(2, 4) for _ in range(r)]
    sb = [d + rng.randint(1, 2) if w else d for d, w in zip(sa, whole)]
    idx = []
    for d, w in zip(sa, whole):
        if w: idx.append((0, 0))
        else:
            a = rng.randint(0, d - 1); idx.append((a, rng.randint(a + 1, d)))
    R = p.bind('ranges %s' % ranges(idx), 'R')
    ta = p.tensor(sa, distinct_vals(rng, prod(sa), 'int'))
    tb = p.tensor(sb, distinct_vals(rng, prod(sb), 'frac'))
    order = [ta, tb] if rng.random() < 0.5 else [tb, ta]
    for t in order + [order[0]]:
        s_ = p.bind('slice %s $%s' % (t, R)); p.add('obs %s' % s_)
    # Patch with the shared index, then Slice with it: the block comes back
    blk = [(b - a) if (a, b) != (0, 0) else d for (a, b), d in zip(idx, sa)]
    small = [max(1, d - 1) if (a, b) == (0, 0) else d for (a, b), d in zip(idx, blk)]
    for t, shp in ((tb, sb), (ta, sa)):
        src_shape = [min(x, y) for x, y in zip(small, shp)]
        src = p.tensor(src_shape, [50.0 + v for v in range(prod(src_shape))])
        q = p.bind('patch %s $%s %s' % (t, R, src)); p.add('obs %s' % q)
        s2 = p.bind('slice %s $%s' % (q, R)); p.add('obs %s' % s2)
    # the same for a caller-owned dims list
    D = p.bind('ints %s' % ints([prod(sa)]), 'D')
    for t in (ta, p.tensor(sa, distinct_vals(rng, prod(sa), 'int'))):
        f = p.bind('reshape %s $%s' % (t, D)); p.add('obs %s' % f)
    p.tag('caller-index-reused')
    return p

def gen_C03(rng, tier):
    progs = []
    unary = ['exp', 'log', 'sin', 'cos', 'tan', 'sinh', 'cosh', 'tanh']
    cmps = ['eq', 'ne', 'gt', 'ge', 'lt', 'le', 'elmax', 'elmin']
    arith = ['add', 'sub', 'mul', 'div']
    cnt = 120 if tier == 'quick' else 1500
    for i in range(cnt):
        p = Prog('c03_u%d' % i)
        shape = rand_shape(rng, 6 if i % 9 == 0 else 4, 2 if i % 9 == 0 else 3, 0)
        n = prod(shape)
        cls = rng.choice(['rand', 'pos', 'zeros', 'neg', 'big', 'wide', 'wide'])
        if cls == 'rand': vals = rand_vals(rng, n, -3, 3)
        elif cls == 'pos': vals = rand_vals(rng, n, 0.1, 4)
        elif cls == 'zeros': vals = [rng.choice([0.0, 1.0, -1.0]) for _ in range(n)]
        elif cls == 'neg': vals = rand_vals(rng, n, -4, -0.1)
        elif cls == 'wide':
            # every magnitude at which exp / sinh / cosh are still finite, both signs
            vals = [rng.choice([-1, 1]) * rng.choice([1e-8, 0.01, 0.5, 2.0, 5.0, 12.0, 21.5, 22.5, 25.0, 40.0, 100.0, 300.0, 700.0]) for _ in range(n)]
        else: vals = [rng.choice([1e150, -1e150, 1e-150, 3.0]) for _ in range(n)]
        t = p.tensor(shape, vals)
        p.tag('unary', cls)
        for u in unary:
            if u == 'log' and cls in ('neg', 'zeros', 'rand', 'wide'):
                continue
            if u in ('exp', 'sinh', 'cosh', 'tan', 'sin', 'cos') and cls == 'big':
                continue
            r = p.bind('%s %s' % (u, t)); p.add('obs %s' % r)
        r = p.bind('scale %s %s' % (t, f2b(rng.choice([0.0, -1.0, 2.5, 1e-3])))); p.add('obs %s' % r)
        for e in ([0.0, 1.0, 2.0, 3.0] + ([-1.0, -2.0, 0.5] if cls in ('pos',) else [])):
            if cls == 'big' and e > 1: continue
            r = p.bind('pow %s %s' % (t, f2b(e))); p.add('obs %s' % r)
        progs.append(p)
    # comparisons / elmax / elmin on equal shapes with ties
    for i in range(cnt):
        p = Prog('c03_c%d' % i)
        shape = rand_shape(rng, 5, 3, 0)
        n = prod(shape)
        a = [float(rng.randint(-2, 2)) * rng.choice([1.0, 1e100, 0.5]) for _ in range(n)]
        b = [x if rng.random() < 0.4 else float(rng.randint(-2, 2)) * rng.choice([1.0, 1e100, 0.5]) for x in a]
        ta, tb = p.tensor(shape, a), p.tensor(shape, b)
        for c in cmps:
            r = p.bind('%s %s %s' % (c, ta, tb)); p.add('obs %s' % r)
        p.add('equals %s %s' % (ta, tb))
        p.add('equals %s %s' % (ta, ta))
        tc = p.tensor(shape, list(a))
        p.add('equals %s %s' % (ta, tc))
        p.tag('cmp', 'ties')
        progs.append(p)
    # near-ties: operands a few units in the last place apart, at several magnitudes — they are NOT equal (the code's equality
    # is |a-b| <= 1e-240), so eq / ne / gt / … / elmax / elmin / Equals must tell them apart
    for i in range(cnt // 2):
        p = Prog('c03_n%d' % i)
        shape = rand_shape(rng, 3, 3, 0)
        n = prod(shape)
        a = [rng.choice([1.0, -1.0, 1e-12, 1 - 1e-12, 0.5, 3.0, 1e100, -1e-200, 1e-239, 0.0]) * rng.choice([1.0, 1.0, 0.3]) for _ in range(n)]
        b = [ulps(x, rng.choice([-8, -4, -2, -1, 0, 1, 2, 4, 8])) for x in a]
        ta, tb = p.tensor(shape, a), p.tensor(shape, b)
        for c in cmps:
            r = p.bind('%s %s %s' % (c, ta, tb)); p.add('obs %s' % r)
        p.add('equals %s %s' % (ta, tb))
        p.tag('cmp', 'near-ties-ulps')
        progs.append(p)
    # arithmetic with implicit broadcasting, both directions, vs explicit broadcast first
    bc = 300 if tier == 'quick' else 6000
    for i in range(bc):
        p = Prog('c03_b%d' % i)
        target = rand_shape(rng, 6 if i % 11 == 0 else 4, 2 if i % 11 == 0 else 3, 0)
        if i % 13 == 7:
            # high rank (9 … 12 dimensions, most of size 1, two or three of size 2 / 3 anywhere — also at positions 8 and beyond)
            r = rng.randint(9, 12)
            target = [1] * r
            for j in rng.sample(range(r), rng.randint(2, 3)):
                target[j] = rng.randint(2, 3)
            if rng.random() < 0.7:
                target[rng.randint(8, r - 1)] = rng.randint(2, 3)
            p.tag('high-rank')
        sa = broadcast_sources(rng, target)
        sb = broadcast_sources(rng, target)
        # make sure the pair really broadcasts to something (it does: both derive from target)
        bs = bshape(sa, sb)
        va = distinct_vals(rng, prod(sa), 'pos')
        vb = [v + 0.125 for v in distinct_vals(rng, prod(sb), 'pos')]
        if rng.random() < 0.3:
            va = [rng.choice([0.0, -1.0, 1e100, 1e-100, 2.0]) for _ in va]
        # (an operand may be the result of an earlier operation — a reducer's output, a squeezed, sliced, reshaped or
        # transposed tensor — instead of a constructor's)
        ta = derived_tensor(p, rng, sa, va) if rng.random() < 0.3 else p.tensor(sa, va)
        tb = derived_tensor(p, rng, sb, vb) if rng.random() < 0.3 else p.tensor(sb, vb)
        ea = p.bind('broadcast %s %s' % (ta, ints(bs)))
        eb = p.bind('broadcast %s %s' % (tb, ints(bs)))
        for o in arith:
            r = p.bind('%s %s %s' % (o, ta, tb)); p.add('obs %s' % r)
            r2 = p.bind('%s %s %s' % (o, ea, eb)); p.add('equals %s %s' % (r, r2))
        p.tag('arith', 'rankdiff%d' % abs(len(sa) - len(sb)),
              'nexp%d' % sum(1 for x, y in zip(sa[::-1], sb[::-1]) if x != y))
        progs.append(p)
    # special values at specific positions: NaN, +-Inf, -0, subnormal, huge — through every element-wise operation,
    # comparison and broadcasting arithmetic (IEEE results are defined and the same in both implementations)
    SPECIAL = [float('nan'), float('inf'), float('-inf'), -0.0, 0.0, 5e-324, -5e-324, 1.7e308, -1.7e308, 1.0, -1.0, 2.5]
    for i in range(60 if tier == 'quick' else 1200):
        p = Prog('c03_s%d' % i)
        shape = rand_shape(rng, 3, 3, 0)
        n = prod(shape)
        a = [rng.choice(SPECIAL) if rng.random() < 0.5 else rng.uniform(-2, 2) for _ in range(n)]
        b = [rng.choice(SPECIAL) if rng.random() < 0.5 else rng.uniform(-2, 2) for _ in range(n)]
        ta, tb = p.tensor(shape, a), p.tensor(shape, b)
        # libm on subnormal arguments differs between Go's math package and the C library behind Lean's Float
        # (e.g. log(5e-324)); the transcendental functions get the special values without the subnormals
        tl = p.tensor(shape, [1.0 if abs(v) == 5e-324 else v for v in a])
        for u in unary:
            r = p.bind('%s %s' % (u, tl)); p.add('obs %s' % r)
        for e in (0.0, 1.0, 2.0, -1.0, 0.5):
            r = p.bind('pow %s %s' % (tl, f2b(e))); p.add('obs %s' % r)
        r = p.bind('scale %s %s' % (ta, f2b(rng.choice([0.0, -1.0, float('inf'), 2.0])))); p.add('obs %s' % r)
        for c in cmps + arith:
            r = p.bind('%s %s %s' % (c, ta, tb)); p.add('obs %s' % r)
        p.add('equals %s %s' % (ta, tb)); p.add('equals %s %s' % (ta, ta))
        if shape:
            row = p.tensor(shape[-1:], [rng.choice(SPECIAL) for _ in range(shape[-1])])
            for o in arith:
                r = p.bind('%s %s %s' % (o, ta, row)); p.add('obs %s' % r)
        p.tag('special-values')
        progs.append(p)
    # neighbouring elements that compare equal but are not the same value (+0 next to -0), or are the same value
    # repeated: every element-wise operation is still applied element by element; 1/y makes the sign of a zero visible
    for i in range(40 if tier == 'quick' else 800):
        p = Prog('c03_z%d' % i)
        shape = rand_shape(rng, 3, 4, 1)
        n = prod(shape)
        pat = rng.choice([[0.0, -0.0], [-0.0, 0.0], [0.0, 0.0, -0.0], [2.0, 2.0, -2.0], [-0.0, -0.0, 0.0, 1.0]])
        vals = [pat[k % len(pat)] for k in range(n)]
        t = p.tensor(shape, vals)
        one = p.tensor(shape, [1.0] * n)
        for cmd in ['scale %s %s' % (t, f2b(2.0)), 'scale %s %s' % (t, f2b(-1.0)), 'pow %s %s' % (t, f2b(1.0)), 'pow %s %s' % (t, f2b(3.0)),
                    'pow %s %s' % (t, f2b(-1.0)), 'sin %s' % t, 'tan %s' % t, 'sinh %s' % t, 'tanh %s' % t, 'exp %s' % t, 'cos %s' % t]:
            y = p.bind(cmd); p.add('obs %s' % y)
            q = p.bind('div %s %s' % (one, y)); p.add('obs %s' % q)
        p.tag('equal-neighbours-signed-zeros')
        progs.append(p)
    # incompatible shapes must be errors
    for i in range(40 if tier == 'quick' else 300):
        p = Prog('c03_e%d' % i)
        sa = rand_shape(rng, 3, 4, 1)
        sb = list(sa)
        j = rng.randrange(len(sb))
        sb[j] = sa[j] + rng.randint(1, 2)
        if sa[j] == 1: sa[j] = 2; sb[j] = 3
        ta, tb = p.tensor(sa, [1.0] * prod(sa)), p.tensor(sb, [2.0] * prod(sb))
        for o in arith + cmps:
            p.bind('%s %s %s' % (o, ta, tb))
        p.tag('incompatible')
        progs.append(p)
    return progs

def gen_C04(rng, tier):
    progs = []
    cnt = 250 if tier == 'quick' else 5000
    for i in range(cnt):
        p = Prog('c04_m%d' % i)
        m, n, k = rng.randint(1, 3), rng.randint(1, 3), rng.randint(1, 3)
        if i % 4 == 0:
            m, n, k = min(dim_size(rng), 17), min(dim_size(rng), 33), min(dim_size(rng), 17)
        batch = rand_shape(rng, 4 if i % 10 == 0 else 3, 2 if i % 10 == 0 else 3, 0)
        if m * n * k > 60: batch = batch[:1]
        ba = broadcast_sources(rng, batch)
        bb = broadcast_sources(rng, batch)
        sa, sb = ba + [m, n], bb + [n, k]
        va = [float(v) for v in range(1, prod(sa) + 1)]
        vb = [float((v * 7) % 11 - 5) for v in range(prod(sb))]
        ta, tb = p.tensor(sa, va), p.tensor(sb, vb)
        r = p.bind('matmul %s %s' % (ta, tb)); p.add('obs %s' % r)
        # identities: A·I = A, I·B = B, (A·B)^T = B^T·A^T
        e = p.bind('eye U %d' % n)
        ai = p.bind('matmul %s %s' % (ta, e)); p.add('equals %s %s' % (ai, ta))
        ib = p.bind('matmul %s %s' % (e, tb)); p.add('equals %s %s' % (ib, tb))
        rt = p.bind('transpose %s' % r); p.add('obs %s' % rt)
        at_, bt = p.bind('transpose %s' % ta), p.bind('transpose %s' % tb)
        p.add('obs %s' % at_)
        r2 = p.bind('matmul %s %s' % (bt, at_)); p.add('equals %s %s' % (rt, r2))
        tt = p.bind('transpose %s' % at_); p.add('equals %s %s' % (tt, ta))
        p.tag('matmul', 'batchrank%d/%d' % (len(ba), len(bb)), 'mnk%d%d%d' % (m, n, k))
        progs.append(p)
    for i in range(cnt // 2):
        p = Prog('c04_d%d' % i)
        n = rng.randint(1, 4) if i % 4 else min(dim_size(rng), 65)
        lead = rand_shape(rng, 4, 3, 0)
        if n > 8: lead = lead[:2]
        la = broadcast_sources(rng, lead)
        lb = broadcast_sources(rng, lead)
        sa, sb = la + [n], lb + [n]
        ta = p.tensor(sa, [float(v) for v in range(1, prod(sa) + 1)])
        tb = p.tensor(sb, [float((v * 5) % 7 - 3) for v in range(prod(sb))])
        r = p.bind('dot %s %s' % (ta, tb)); p.add('obs %s' % r)
        p.tag('dot', 'leadrank%d/%d' % (len(la), len(lb)))
        progs.append(p)
    for i in range(cnt // 4):
        p = Prog('c04_t%d' % i)
        shape = rand_shape(rng, 6 if i % 5 == 0 else 4, 2 if i % 5 == 0 else 3, 2)
        t = p.tensor(shape, distinct_vals(rng, prod(shape)))
        r = p.bind('transpose %s' % t); p.add('obs %s' % r)
        p.tag('transpose', 'rank%d' % len(shape))
        progs.append(p)
    # special values at specific positions: 0 * Inf, Inf - Inf, NaN propagate through the sums exactly as IEEE says
    SPECIAL = [float('nan'), float('inf'), float('-inf'), -0.0, 0.0, 1.7e308, -1.7e308, 1.0]
    for i in range(30 if tier == 'quick' else 600):
        p = Prog('c04_s%d' % i)
        m, n, k = rng.randint(1, 3), rng.randint(1, 4), rng.randint(1, 3)
        va = [rng.choice(SPECIAL) if rng.random() < 0.3 else rng.uniform(-2, 2) for _ in range(m * n)]
        vb = [rng.choice(SPECIAL) if rng.random() < 0.3 else rng.uniform(-2, 2) for _ in range(n * k)]
        ta, tb = p.tensor([m, n], va), p.tensor([n, k], vb)
        r = p.bind('matmul %s %s' % (ta, tb)); p.add('obs %s' % r)
        rt = p.bind('transpose %s' % r); p.add('obs %s' % rt)
        tc = p.tensor([m, n], [rng.choice(SPECIAL) if rng.random() < 0.3 else rng.uniform(-2, 2) for _ in range(m * n)])
        d = p.bind('dot %s %s' % (ta, tc)); p.add('obs %s' % d)
        p.tag('special-values')
        progs.append(p)
    # invalid shapes are errors
    for i in range(30 if tier == 'quick' else 300):
        p = Prog('c04_e%d' % i)
        sa = rand_shape(rng, 3, 3, 0); sb = rand_shape(rng, 3, 3, 0)
        ta, tb = p.tensor(sa, [1.0] * prod(sa)), p.tensor(sb, [1.0] * prod(sb))
        p.bind('matmul %s %s' % (ta, tb)); p.bind('dot %s %s' % (ta, tb)); p.bind('transpose %s' % ta)
        p.tag('invalid')
        progs.append(p)
    return progs

def gen_C05(rng, tier):
    progs = []
    red = ['sum', 'max', 'min', 'avg', 'var', 'std', 'mean']
    count = 150 if tier == 'quick' else 400
    for i, shape in enumerate(shapes_for(rng, tier, count)):
        p = Prog('c05_%d' % i)
        n = prod(shape)
        kind = rng.choice(['int', 'frac', 'rand', 'const'])
        if kind == 'rand': vals = rand_vals(rng, n, -5, 5)
        elif kind == 'const': vals = [2.5] * n
        else: vals = distinct_vals(rng, n, kind)
        t = p.tensor(shape, vals)
        for r in red:
            p.add('%s %s' % (r, t))
        for d in range(len(shape)):
            for r in red:
                o = p.bind('%salong %s %d' % (r, t, d)); p.add('obs %s' % o)
        p.tag('rank%d' % len(shape), kind)
        progs.append(p)
    # large tensors: long fibres, element counts past typical block / threshold sizes
    for i, shape in enumerate(big_shapes(rng, 4 if tier == 'quick' else 12)):
        p = Prog('c05_big%d' % i)
        n = prod(shape)
        vals = [((k * 37) % 101) / 8.0 - 6.0 for k in range(n)]
        t = p.tensor(shape, vals)
        for r in red:
            p.add('%s %s' % (r, t))
        for d in range(len(shape)):
            for r in red:
                o = p.bind('%salong %s %d' % (r, t, d)); p.add('obs %s' % o)
        p.tag('large')
        progs.append(p)
    # blocks whose partial sums cancel catastrophically (1e16, small, -1e16, ...): the result of a summing reducer is the one
    # the defined left-to-right order gives; any other association or order of partial results is off by whole units
    for i in range(30 if tier == 'quick' else 300):
        p = Prog('c05_cancel%d' % i)
        rows, cols = rng.randint(3, 9), rng.randint(1, 6)
        big = rng.choice([1e16, 3e15, 1e17])
        vals = []
        for r in range(rows):
            base = [big, 0.0, -big][r % 3] if rng.random() < 0.85 else 0.0
            for c in range(cols):
                vals.append(base / cols + float(rng.randint(1, 5)) if c else base + float(rng.randint(1, 5)))
        shape = [rows, cols] if rng.random() < 0.7 else [rows, cols, 1]
        t = p.tensor(shape, vals)
        for r in ('sum', 'avg', 'mean', 'var', 'std'):
            p.add('%s %s' % (r, t))
        for d in range(len(shape)):
            for r in ('sum', 'avg', 'mean'):
                o = p.bind('%salong %s %d' % (r, t, d)); p.add('obs %s' % o)
        p.tag('cancelling-blocks')
        progs.append(p)
    # reducers on tensors DERIVED from a tensor that has (or has not yet) been reduced itself: every shape operation,
    # then every reducer on the result, then the source again — a statistic is a function of the elements the tensor holds
    # now, whatever was computed from its source before
    for i in range(60 if tier == 'quick' else 900):
        p = Prog('c05_d%d' % i)
        shape = rand_shape(rng, 3, 3, 0)
        n = prod(shape)
        vals = distinct_vals(rng, n, rng.choice(['int', 'frac']))
        t = p.tensor(shape, vals)
        before = rng.random() < 0.7
        if before:
            for r in rng.sample(red, rng.randint(1, len(red))):
                p.add('%s %s' % (r, t))
        derived = []
        lead = [rng.randint(2, 4) for _ in range(rng.randint(1, 2))]
        derived.append(p.bind('broadcast %s %s' % (t, ints(lead + shape))))
        if 1 in shape:
            tgt = [d if d != 1 else rng.randint(2, 3) for d in shape]
            derived.append(p.bind('broadcast %s %s' % (t, ints(tgt))))
            derived.append(p.bind('squeeze %s %d' % (t, shape.index(1))))
        derived.append(p.bind('broadcast %s %s' % (t, ints(shape) if shape else '-')))
        derived.append(p.bind('reshape %s %s' % (t, ints([n]))))
        derived.append(p.bind('unsqueeze %s %d' % (t, rng.randint(0, len(shape)))))
        derived.append(p.bind('scale %s %s' % (t, f2b(2.0))))
        if len(shape) >= 2:
            derived.append(p.bind('transpose %s' % t))
            derived.append(p.bind('flatten %s %d' % (t, rng.randint(0, len(shape) - 1))))
        if shape:
            derived.append(p.bind('concat %s,%s %d' % (t, t, rng.randrange(len(shape)))))
            idx = rand_index(rng, shape)
            derived.append(p.bind('slice %s %s' % (t, ranges(idx))))
            src = p.tensor(sliced_shape(shape, idx), [100.0 + k for k in range(prod(sliced_shape(shape, idx)))])
            derived.append(p.bind('patch %s %s %s' % (t, ranges(idx), src)))
            derived.append(p.bind('sumalong %s %d' % (t, rng.randrange(len(shape)))))
        rng.shuffle(derived)
        for dv in derived[:6]:
            for r in rng.sample(red, 4):
                p.add('%s %s' % (r, dv))
            p.add('obs %s' % dv)
        for r in red:
            p.add('%s %s' % (r, t))
        p.tag('derived-after-reduce' if before else 'derived-before-reduce')
        progs.append(p)
    # special values at specific positions (NaN, +-Inf, -0, huge): the folds have defined IEEE results
    SPECIAL = [float('nan'), float('inf'), float('-inf'), -0.0, 0.0, 1.7e308, -1.7e308, 1.0, -2.5]
    for i in range(40 if tier == 'quick' else 800):
        p = Prog('c05_s%d' % i)
        shape = rand_shape(rng, 3, 3, 0)
        n = prod(shape)
        k = rng.choice(['one', 'one', 'many'])
        vals = [rng.uniform(-3, 3) for _ in range(n)]
        for _ in range(1 if k == 'one' else rng.randint(2, max(2, n))):
            vals[rng.randrange(n)] = rng.choice(SPECIAL)
        t = p.tensor(shape, vals)
        for r in red:
            p.add('%s %s' % (r, t))
        for d in range(len(shape)):
            for r in red:
                o = p.bind('%salong %s %d' % (r, t, d)); p.add('obs %s' % o)
        p.tag('special-values')
        progs.append(p)
    return progs
