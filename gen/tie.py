"""Second tie between model and source: definitions regenerated from /repo's Go text by /verif/xlate, compared with the
hand-written model by kernel-checked equations (lean/QeepTie/*.lean), plus wiring facts of cputensor.go compared with
the committed expectation (xlate/expected.json).  See DESIGN.md section 4b.

A drift (the regenerated definitions no longer equal the model, a function is no longer translatable, the wiring
changed) is NOT a verdict: the property theorems are about the hand-written model and the model is tied to the code by
the correspondence run.  A drift tells the check WHERE the source changed, and the check then searches harder."""
import os, json, re, subprocess, filecmp, shutil

VERIF = os.path.dirname(os.path.dirname(os.path.abspath(__file__)))
LEAN = os.path.join(VERIF, 'lean')
XLATE = os.path.join(VERIF, '.build', 'xlate')
GOENV = dict(os.environ, GOFLAGS='-mod=mod', GOPROXY='off', GOSUMDB='off', GOTOOLCHAIN='local')

# which generated group speaks about which property
GROUPS = {
    'Rules': ['C01', 'C02', 'C07', 'C13', 'C15'],
    'Act': ['C14', 'C15'],
    'Loss': ['C12', 'C13'],
    'FC': ['C16', 'C11'],
    'SGD': ['C17', 'C11'],
    'Valid': ['C09'],
}
# wiring of the public tensor operations: validators / raw operation / gradtrack constructor per method
WIRING_PROPS = ['C02', 'C08', 'C09']


def _theorem_of_line(path, line):
    name = None
    try:
        for i, l in enumerate(open(path), 1):
            m = re.match(r'\s*theorem\s+(\S+)', l)
            if m:
                name = m.group(1)
            if i >= line:
                break
    except OSError:
        pass
    return name


def run(pid, repo='/repo'):
    """-> dict(groups=[...], status='ok'|'drift'|'skipped', drift=[str], translated=int, untranslated={...})"""
    groups = [g for g, ps in GROUPS.items() if pid in ps]
    res = {'groups': groups, 'status': 'ok', 'drift': [], 'wiring_checked': pid in WIRING_PROPS}
    if not os.path.exists(XLATE):
        r = subprocess.run(['go', 'build', '-o', XLATE, '.'], cwd=os.path.join(VERIF, 'xlate'), env=GOENV, capture_output=True, text=True)
        if r.returncode != 0:
            res['status'] = 'skipped'; res['drift'].append('xlate does not build: ' + (r.stdout + r.stderr)[-300:])
            return res
    out = os.path.join(VERIF, 'work', 'gen_%s_%d' % (pid, os.getpid()))
    shutil.rmtree(out, ignore_errors=True)
    rep_path = out + '.json'
    r = subprocess.run([XLATE, repo, out, rep_path], capture_output=True, text=True)
    if r.returncode != 0:
        # the source does not even parse: the harness build will say so too
        res['status'] = 'drift'; res['drift'].append('xlate failed: ' + (r.stdout + r.stderr)[-300:])
        return res
    rep = json.load(open(rep_path))
    exp = json.load(open(os.path.join(VERIF, 'xlate', 'expected.json')))
    res['translated'] = len(rep.get('translated', []))
    res['untranslated'] = rep.get('untranslated', {})
    # 1. regenerate the Lean files of the groups (atomic replace; identical content is left alone)
    for g in ('Rules', 'Act', 'Loss', 'FC', 'SGD', 'Valid'):
        src = os.path.join(out, g + '.lean'); dst = os.path.join(LEAN, 'QeepGen', g + '.lean')
        if not os.path.exists(src):
            open(src, 'w').write('/- nothing translatable -/\n')
        if not (os.path.exists(dst) and filecmp.cmp(src, dst, shallow=False)):
            tmp = dst + '.%d.tmp' % os.getpid()
            shutil.copy(src, tmp); os.replace(tmp, dst)
    # 2. the equations
    for g in groups:
        for mod, kind in (('QeepGen.' + g, 'generated definitions do not compile'), ('QeepTie.' + g, 'equation no longer checks')):
            r = subprocess.run(['lake', 'build', mod], cwd=LEAN, capture_output=True, text=True)
            if r.returncode != 0:
                txt = r.stdout + r.stderr
                names = set()
                for m in re.finditer(r'error: (\S+?\.lean):(\d+):\d+', txt):
                    t = _theorem_of_line(os.path.join(LEAN, m.group(1)), int(m.group(2)))
                    if t:
                        names.add(t)
                first = re.search(r'error: .*', txt)
                res['drift'].append('%s: %s (%s) %s' % (mod, kind, ', '.join(sorted(names)) or 'see build output',
                                                       first.group(0)[:200] if first else ''))
                break
    # 2b. hygiene of the equation files themselves, and how many equations were re-checked
    n_eq = 0
    for g in groups:
        path = os.path.join(LEAN, 'QeepTie', g + '.lean')
        try:
            txt = open(path).read()
        except OSError:
            continue
        code = re.sub(r'/-.*?-/', '', txt, flags=re.S)
        code = re.sub(r'--.*', '', code)
        n_eq += len(re.findall(r'^theorem\s', code, flags=re.M))
        if re.search(r'\b(sorry|admit|native_decide|bv_decide|implemented_by)\b|^\s*axiom\s|unsafe\s|maxHeartbeats\s+0', code, flags=re.M):
            res['drift'].append('forbidden construct in QeepTie/%s.lean' % g)
    res['equations_checked'] = n_eq
    # 3. translatability and the tracking heads / edge targets
    if 'Rules' in groups or groups:
        exp_un = set(exp.get('untranslated', []))
        for k, why in sorted(rep.get('untranslated', {}).items()):
            if k not in exp_un and any(k.startswith(p) for p in _prefixes(groups)):
                res['drift'].append('no longer translatable: %s (%s)' % (k, why[:160]))
    if 'Rules' in groups:
        for k, v in sorted(exp.get('constructors', {}).items()):
            if rep.get('constructors', {}).get(k) != v:
                res['drift'].append('gradients.go constructor %s: head / targets changed: %s' % (k, json.dumps(rep.get('constructors', {}).get(k))[:200]))
        for k in rep.get('constructors', {}):
            if k not in exp.get('constructors', {}):
                res['drift'].append('gradients.go: new constructor %s' % k)
    # 4. wiring of cputensor.go
    if pid in WIRING_PROPS:
        for k, v in sorted(exp.get('wiring', {}).items()):
            if rep.get('wiring', {}).get(k) != v:
                res['drift'].append('cputensor.go %s: calls %s, expected %s' % (k, json.dumps(rep.get('wiring', {}).get(k))[:200], json.dumps(v)[:200]))
        for k in rep.get('wiring', {}):
            if k not in exp.get('wiring', {}):
                res['drift'].append('cputensor.go: new exported function %s' % k)
    # 5. fingerprints: which functions of the files this property is anchored in differ from the reviewed source
    anchored = set()
    for l in open(os.path.join(VERIF, 'properties.jsonl')):
        pr = json.loads(l)
        if pr['id'] == pid:
            anchored = set(pr.get('anchors', {}).get('files', []))
    adirs = {os.path.dirname(f) for f in anchored}
    eh, nh = exp.get('func_hashes', {}), rep.get('func_hashes', {})
    changed = sorted(k for k in set(eh) | set(nh) if eh.get(k) != nh.get(k))
    res['functions_changed'] = changed[:40]
    rel = [k for k in changed if k.split(':')[0] in anchored or (k not in eh and os.path.dirname(k.split(':')[0]) in adirs)]
    if rel:
        res['drift'].append('source differs from the reviewed tree in: ' + ', '.join(rel[:12]) + (' …' if len(rel) > 12 else ''))
    shutil.rmtree(out, ignore_errors=True)
    try:
        os.remove(rep_path)
    except OSError:
        pass
    if res['drift']:
        res['status'] = 'drift'
    return res


def _prefixes(groups):
    p = []
    for g in groups:
        p += {'Rules': ['gradients.', 'gradient_helpers.'], 'Act': ['relu.', 'leaky_relu.', 'sigmoid.', 'tanh.', 'softmax.'],
              'Loss': ['mse.', 'bce.', 'ce.'], 'FC': ['fc.'], 'SGD': ['sgd.'], 'Valid': ['validator.']}[g]
    return p


if __name__ == '__main__':
    import sys
    if sys.argv[1] == '--write-expected':
        # record the current tree's facts as the expectation (review the diff before committing!)
        out = os.path.join(VERIF, 'work', 'gen_expected'); rp = out + '.json'
        subprocess.run([XLATE, sys.argv[2] if len(sys.argv) > 2 else '/repo', out, rp], check=True)
        rep = json.load(open(rp))
        exp = {'untranslated': sorted(rep['untranslated']), 'constructors': rep['constructors'], 'wiring': rep['wiring'],
               'translated': rep['translated'], 'func_hashes': rep['func_hashes']}
        json.dump(exp, open(os.path.join(VERIF, 'xlate', 'expected.json'), 'w'), indent=1, sort_keys=True)
        print('written')
    else:
        print(json.dumps(run(sys.argv[1], *(sys.argv[2:3])), indent=1))
