"""Size sweeps (seed-independent, run once per check): every operation of a property is run with one dimension going
through a grid of lengths around the usual blocking / unrolling / threshold values (7, 8, 9, 16, 17, 32, 33, 64, 65, 100,
128, 129, 256, 257, 512, 513, 1000, 1024, 1025, 1027, 1030, ...), in several positions of the shape (only dim, leading,
trailing, with remainders of 4 and 8), with non-uniform values, so that a defect that exists only from a certain size
upward, only at a remainder of a blocked loop, or only for the last elements is exercised for every operation."""
from lib import *

QUICK = [8, 9, 16, 17, 32, 33, 34, 64, 65, 100, 127, 128, 129, 130, 256, 257, 513, 600, 1000, 1024, 1025, 1027, 1030]
MORE = [5, 6, 7, 10, 13, 15, 31, 35, 37, 63, 66, 70, 96, 131, 255, 260, 511, 512, 700, 769, 1023, 1029, 1100, 1793, 2049, 4097]

def sizes(tier):
    return QUICK if tier == 'quick' else sorted(set(QUICK + MORE))

def vals(n, a=37, m=101, scale=0.125, off=-6.0):
    return [((k * a) % m) * scale + off for k in range(n)]

def pos(n):
    return [0.25 + ((k * 29) % 53) * 0.0625 for k in range(n)]

def shapes_with(n):
    """n as the only, the leading, the trailing dimension; and two-dimensional shapes with n or about n elements"""
    out = [[n], [n, 1], [1, n], [n, 3], [3, n]]
    if n >= 64:
        for a in (7, 8, 9, 41):
            if n % a == 0 and n // a > 1: out.append([a, n // a])
    return out

def _finish(p, y, yshape, leaves):
    g = p.tensor(yshape, [(-1.5, 0.5, 2.0, 1.0, -0.75, 3.0)[j % 6] + 0.125 * ((j // 6) % 5) for j in range(prod(yshape))])
    z = p.bind('mul %s %s' % (y, g)); p.add('bp %s' % z)
    for l in leaves: p.add('obs %s' % l)

# ------------------------------------------------------------------------------------------------ forward values

def sweep_C03(tier):
    progs = []
    for n in sizes(tier):
        for si, sh in enumerate(shapes_with(n)):
            if prod(sh) > 5000: continue
            p = Prog('sz03_%d_%d' % (n, si))
            k = prod(sh)
            a, b = p.tensor(sh, vals(k)), p.tensor(sh, [v + 0.5 for v in vals(k, 31, 97)])
            for cmd in ['scale %s %s' % (a, f2b(-1.5)), 'pow %s %s' % (a, f2b(2.0)), 'tanh %s' % a, 'exp %s' % p.bind('scale %s %s' % (a, f2b(0.125)))]:
                r = p.bind(cmd); p.add('obs %s' % r)
            for o in ['add', 'sub', 'mul', 'div', 'eq', 'ge', 'lt', 'elmax', 'elmin']:
                r = p.bind('%s %s %s' % (o, a, b)); p.add('obs %s' % r)
            p.add('equals %s %s' % (a, a)); p.add('equals %s %s' % (a, b))
            # broadcasting against a row / a scalar
            row = p.tensor(sh[-1:], [0.5 + 0.25 * (j % 9) for j in range(sh[-1])])
            r = p.bind('sub %s %s' % (a, row)); p.add('obs %s' % r)
            r = p.bind('sub %s %s' % (row, a)); p.add('obs %s' % r)
            sc = p.tensor([], [3.0])
            r = p.bind('div %s %s' % (sc, b)); p.add('obs %s' % r)
            p.tag('size-sweep')
            progs.append(p)
    return progs

def sweep_C04(tier):
    progs = []
    for n in sizes(tier):
        if n > 1100: continue
        p = Prog('sz04_%d' % n)
        a = p.tensor([2, n], vals(2 * n)); b = p.tensor([n, 3], [v * 0.5 for v in vals(3 * n, 31, 97)])
        r = p.bind('matmul %s %s' % (a, b)); p.add('obs %s' % r)
        c = p.tensor([n, 2], vals(2 * n, 29, 89)); d = p.tensor([2, 2], [1.0, -2.0, 0.5, 3.0])
        r = p.bind('matmul %s %s' % (c, d)); p.add('obs %s' % r)
        r = p.bind('matmul %s %s' % (d, a)); p.add('obs %s' % r)
        if n <= 130:
            e = p.bind('eye U %d' % n)
            r = p.bind('matmul %s %s' % (a, e)); p.add('equals %s %s' % (r, a))
            r = p.bind('matmul %s %s' % (e, b)); p.add('equals %s %s' % (r, b))
        v1, v2 = p.tensor([n], vals(n)), p.tensor([n], vals(n, 31, 97))
        r = p.bind('dot %s %s' % (v1, v2)); p.add('obs %s' % r)
        r = p.bind('dot %s %s' % (a, p.tensor([2, n], vals(2 * n, 23, 83)))); p.add('obs %s' % r)
        t = p.bind('transpose %s' % a); p.add('obs %s' % t)
        t = p.bind('transpose %s' % b); p.add('obs %s' % t)
        p.tag('size-sweep')
        progs.append(p)
    # every small combination of (m, n, k) around 16 / 17: valid calls are accepted and correct
    grid = [1, 2, 3, 5, 16, 17, 18, 33]
    for m in grid:
        for n in grid:
            p = Prog('sz04g_%d_%d' % (m, n))
            for k in grid:
                if m * n * k > 6000: continue
                a = p.tensor([m, n], vals(m * n)); b = p.tensor([n, k], vals(n * k, 31, 97))
                r = p.bind('matmul %s %s' % (a, b)); p.add('obs %s' % r)
            p.tag('size-sweep', 'matmul-grid')
            progs.append(p)
    return progs

def sweep_C05(tier):
    progs = []
    red = ['sum', 'max', 'min', 'avg', 'var', 'std', 'mean']
    for n in sizes(tier):
        for si, sh in enumerate([[n], [3, n], [n, 3], [2, n, 2]]):
            if prod(sh) > 6000: continue
            p = Prog('sz05_%d_%d' % (n, si))
            t = p.tensor(sh, vals(prod(sh)))
            for r in red: p.add('%s %s' % (r, t))
            for d in range(len(sh)):
                for r in red:
                    o = p.bind('%salong %s %d' % (r, t, d)); p.add('obs %s' % o)
            p.tag('size-sweep')
            progs.append(p)
    return progs

def sweep_C06(tier):
    progs = []
    for n in sizes(tier):
        if n > 1100: continue
        p = Prog('sz06_%d' % n)
        t = p.tensor([n + 5, 3], vals(3 * (n + 5)))
        src = p.tensor([n, 3], [1000.0 + v for v in range(3 * n)])
        for off in (0, 2, 5):
            r = p.bind('patch %s %s %s' % (t, ranges([(off, off + n)]), src)); p.add('obs %s' % r)
            back = p.bind('slice %s %s' % (r, ranges([(off, off + n)]))); p.add('equals %s %s' % (back, src))
        narrow = p.tensor([n, 1], [2000.0 + v for v in range(n)])
        r = p.bind('patch %s %s %s' % (t, ranges([(1, n + 1), (1, 2)]), narrow)); p.add('obs %s' % r)
        v = p.tensor([n + 3], vals(n + 3))
        r = p.bind('slice %s %s' % (v, ranges([(1, n + 1)]))); p.add('obs %s' % r)
        r = p.bind('patch %s %s %s' % (v, ranges([(2, n + 2)]), p.tensor([n], [500.0 + j for j in range(n)]))); p.add('obs %s' % r)
        a, b = p.tensor([n], vals(n)), p.tensor([n + 1], vals(n + 1, 31, 97))
        r = p.bind('concat %s,%s,%s 0' % (a, b, a)); p.add('obs %s' % r)
        m = p.tensor([n, 2], vals(2 * n))
        r = p.bind('concat %s,%s 1' % (m, m)); p.add('obs %s' % r)
        r = p.bind('reshape %s %s' % (m, ints([2, n]))); p.add('obs %s' % r)
        r = p.bind('flatten %s 0' % m); p.add('obs %s' % r)
        r = p.bind('broadcast %s %s' % (p.tensor([1, 3], [1.0, 2.0, 3.0]), ints([n, 3]))); p.add('obs %s' % r)
        r = p.bind('broadcast %s %s' % (p.tensor([3, 1], [1.0, 2.0, 3.0]), ints([3, n]))); p.add('obs %s' % r)
        r = p.bind('full U %s %s' % (ints([n, 2]), f2b(2.5))); p.add('obs %s' % r)
        if n <= 130: r = p.bind('eye U %d' % n); p.add('obs %s' % r)
        p.add('at %s %s' % (m, ints([n - 1, 1]))); p.add('nelems %s' % m)
        p.tag('size-sweep')
        progs.append(p)
    return progs

# ------------------------------------------------------------------------------------------------ gradients

def sweep_C02(tier):
    progs = []
    for n in sizes(tier):
        if n > 1100: continue
        for kind in ('unary', 'binary', 'along', 'matmul', 'dot', 'moves'):
            p = Prog('sz02_%s_%d' % (kind, n))
            if kind == 'unary':
                for cmd in ('scale $A %s' % f2b(2.5), 'pow $A %s' % f2b(2.0), 'tanh $A', 'log $A'):
                    a = p.tensor([n], pos(n), tracked=True)
                    y = p.bind(cmd.replace('$A', a)); _finish(p, y, [n], [a])
            elif kind == 'binary':
                for o in ('add', 'sub', 'mul', 'div', 'elmax'):
                    a = p.tensor([n], pos(n), tracked=True); b = p.tensor([n], [v + 0.3 for v in pos(n)][::-1], tracked=True)
                    y = p.bind('%s %s %s' % (o, a, b)); _finish(p, y, [n], [a, b])
            elif kind == 'along':
                for r in ('sum', 'max', 'min', 'avg', 'var', 'std', 'mean'):
                    a = p.tensor([2, n], [v + 0.001 * j for j, v in enumerate(vals(2 * n))], tracked=True)
                    y = p.bind('%salong %s 1' % (r, a)); _finish(p, y, [2], [a])
                    a = p.tensor([n, 2], [v + 0.001 * j for j, v in enumerate(vals(2 * n))], tracked=True)
                    y = p.bind('%salong %s 0' % (r, a)); _finish(p, y, [2], [a])
            elif kind == 'matmul':
                a = p.tensor([2, n], vals(2 * n), tracked=True); b = p.tensor([n, 3], vals(3 * n, 31, 97), tracked=True)
                y = p.bind('matmul %s %s' % (a, b)); _finish(p, y, [2, 3], [a, b])
                c = p.tensor([n, 2], vals(2 * n), tracked=True); d = p.tensor([2, 3], vals(6, 31, 97), tracked=True)
                y = p.bind('matmul %s %s' % (c, d)); _finish(p, y, [n, 3], [c, d])
            elif kind == 'dot':
                a = p.tensor([2, n], vals(2 * n), tracked=True); b = p.tensor([2, n], vals(2 * n, 31, 97), tracked=True)
                y = p.bind('dot %s %s' % (a, b)); _finish(p, y, [2], [a, b])
            else:
                a = p.tensor([n + 2, 2], vals(2 * n + 4), tracked=True)
                y = p.bind('slice %s %s' % (a, ranges([(1, n + 1)]))); _finish(p, y, [n, 2], [a])
                a = p.tensor([n + 2, 2], vals(2 * n + 4), tracked=True); s = p.tensor([n, 2], vals(2 * n, 31, 97), tracked=True)
                y = p.bind('patch %s %s %s' % (a, ranges([(2, n + 2)]), s)); _finish(p, y, [n + 2, 2], [a, s])
                a = p.tensor([n], vals(n), tracked=True); b = p.tensor([3], [1.0, 2.0, 3.0], tracked=True)
                y = p.bind('concat %s,%s,%s 0' % (a, b, a)); _finish(p, y, [2 * n + 3], [a, b])
                a = p.tensor([n, 2], vals(2 * n), tracked=True)
                y = p.bind('transpose %s' % a); _finish(p, y, [2, n], [a])
                a = p.tensor([n, 2], vals(2 * n), tracked=True)
                y = p.bind('reshape %s %s' % (a, ints([2 * n]))); _finish(p, y, [2 * n], [a])
            p.tag('size-sweep')
            progs.append(p)
    return progs

def sweep_C07(tier):
    progs = []
    for n in sizes(tier):
        if n > 1100: continue
        p = Prog('sz07_%d' % n)
        for src, dst in (([1, 3], [n, 3]), ([3, 1], [3, n]), ([3], [n, 3]), ([], [n]), ([1], [n]), ([2, 1, 2], [2, n, 2])):
            x = p.tensor(src, [0.5 + 0.25 * j for j in range(prod(src))], tracked=True)
            y = p.bind('broadcast %s %s' % (x, ints(dst))); _finish(p, y, dst, [x])
            x = p.tensor(src, [0.5 + 0.25 * j for j in range(prod(src))], tracked=True)
            c = p.tensor(dst, pos(prod(dst)))
            y = p.bind('mul %s %s' % (x, c)); _finish(p, y, dst, [x])
        p.tag('size-sweep')
        progs.append(p)
    return progs

# ------------------------------------------------------------------------------------------------ components

def sweep_C12(tier):
    progs = []
    for n in sizes(tier):
        p = Prog('sz12_%d' % n)
        yp = [0.05 + 0.9 * ((3 * k + 1) % 17) / 17.0 for k in range(n)]
        yt = [float((k * 7) % 3 == 0) for k in range(n)]
        for kind in ('mse', 'bce'):
            j = p.bind(kind, 'j')
            a = p.tensor([n], yp, tracked=True); b = p.tensor([n], yt)
            l = p.bind('loss %s %s %s' % (j, a, b)); p.add('obs %s' % l)
            p.add('bp %s' % l); p.add('obs %s' % a)
        j = p.bind('ce', 'j')
        for sh in ([n, 2], [2, n]):
            if prod(sh) > 4200: continue
            k = prod(sh)
            a = p.tensor(sh, [0.05 + 0.9 * ((3 * i + 1) % 17) / 17.0 for i in range(k)], tracked=True)
            b = p.tensor(sh, [float((i * 7) % 3 == 0) for i in range(k)])
            l = p.bind('loss %s %s %s' % (j, a, b)); p.add('obs %s' % l)
            p.add('bp %s' % l); p.add('obs %s' % a)
        p.tag('size-sweep')
        progs.append(p)
    return progs

def sweep_C14(tier):
    progs = []
    for n in sizes(tier):
        if n > 2100: continue
        p = Prog('sz14_%d' % n)
        xs = [((k * 37) % 101) * 0.05 - 2.5 for k in range(2 * n)]
        for cmd in ('relu', 'leaky %s' % f2b(0.25), 'sigmoid', 'tanh'):
            a = p.bind(cmd, 'a')
            x = p.tensor([n], xs[:n], tracked=True)
            y = p.bind('fwd %s %s' % (a, x)); p.add('obs %s' % y)
            _finish(p, y, [n], [x])
        for sh, d in (([2, n], 1), ([n, 2], 0), ([n], 0)):
            a = p.bind('softmax %d' % d, 'a')
            x = p.tensor(sh, xs[:prod(sh)], tracked=True)
            y = p.bind('fwd %s %s' % (a, x)); p.add('obs %s' % y)
            s = p.bind('sumalong %s %d' % (y, d)); p.add('obs %s' % s)
            _finish(p, y, sh, [x])
        p.tag('size-sweep')
        progs.append(p)
    return progs

def sweep_C16(tier):
    progs = []
    for n in sizes(tier):
        if n > 1100: continue
        for batch in (1, 2):
            p = Prog('sz16_%d_%d' % (n, batch))
            f = p.bind('fc %d 2' % n, 'f')
            pw, pb = p.bind('weight %s 0' % f, 'p'), p.bind('weight %s 1' % f, 'p')
            w = p.tensor([2], [0.5, -1.25], tracked=True); b = p.tensor([2], [0.25, 2.0], tracked=True)
            p.add('setptr %s %s' % (pw, w)); p.add('setptr %s %s' % (pb, b))
            x = p.tensor([batch, n], [float((k * 7) % 11 - 5) for k in range(batch * n)], tracked=True)
            y = p.bind('fwd %s %s' % (f, x)); p.add('obs %s' % y)
            _finish(p, y, [batch, 2], [x, w, b])
            p.tag('size-sweep')
            progs.append(p)
        # many outputs, few features
        p = Prog('sz16o_%d' % n)
        f = p.bind('fc 2 %d' % n, 'f')
        pw, pb = p.bind('weight %s 0' % f, 'p'), p.bind('weight %s 1' % f, 'p')
        w = p.tensor([n], pos(n), tracked=True); b = p.tensor([n], vals(n), tracked=True)
        p.add('setptr %s %s' % (pw, w)); p.add('setptr %s %s' % (pb, b))
        x = p.tensor([1, 2], [1.5, -0.5], tracked=True)
        y = p.bind('fwd %s %s' % (f, x)); p.add('obs %s' % y)
        _finish(p, y, [1, n], [x, w, b])
        p.tag('size-sweep')
        progs.append(p)
    return progs

def sweep_C17(tier):
    progs = []
    for n in sizes(tier):
        for sh in ([n], [n, 3], [3, n], [n, 64] if n in (9, 17, 33, 100) else [n, 1]):
            if prod(sh) > 7000: continue
            p = Prog('sz17_%d_%s' % (n, 'x'.join(map(str, sh))))
            f = p.bind('fc 1 1', 'f'); pw = p.bind('weight %s 0' % f, 'p')
            k = prod(sh)
            w = p.tensor(sh, vals(k), tracked=True)
            p.add('setptr %s %s' % (pw, w))
            c = p.tensor(sh, [v + 0.5 for v in vals(k, 31, 97)])
            z = p.bind('mul %s %s' % (w, c)); p.add('bp %s' % z)
            o = p.bind('sgd %s' % f2b(0.25), 'o')
            p.add('upd %s %s' % (o, pw))
            nw = p.bind('deref %s' % pw); p.add('obs %s' % nw); p.add('obs %s' % w)
            p.tag('size-sweep')
            progs.append(p)
    return progs

def sweep_C18(tier):
    progs = []
    k = 0
    for n in [s for s in sizes(tier) if s <= 1100]:
        for sh in ([n], [n, 8], [8, n]) if n <= 300 else ([n], [n, 2]):
            k += 1
            p = Prog('sz18_%d_%s' % (n, 'x'.join(map(str, sh))))
            p.add('seedrng %d' % (1000 + k))
            for cmd in ('init uniform %s %s' % (f2b(-1.0), f2b(2.0)), 'init normal %s %s' % (f2b(0.5), f2b(2.0)),
                        'init heuniform 24', 'init xaviernormal 7 9'):
                i = p.bind(cmd, 'i')
                t = p.bind('initcall %s %s' % (i, ints(sh))); p.add('obs %s' % t)
            t = p.bind('randu T %s %s %s' % (ints(sh), f2b(0.0), f2b(1.0))); p.add('obs %s' % t)
            t = p.bind('randn U %s %s %s' % (ints(sh), f2b(0.0), f2b(1.0))); p.add('obs %s' % t)
            p.tag('size-sweep')
            progs.append(p)
    return progs

def sweep_C19(tier):
    progs = []
    for n in sizes(tier):
        p = Prog('sz19_%d' % n)
        m, m2 = p.bind('accuracy', 'm'), p.bind('accuracy', 'm')
        yp = [float((k * 7) % 4) for k in range(n)]
        yt = [v if (k % 5) else float((k * 3) % 4) for k, v in enumerate(yp)]
        yt[-1] = yp[-1]; yt[n // 2] = yp[n // 2]
        p.add('acc %s %s %s' % (m, p.tensor([n], yp), p.tensor([n], yt))); p.add('result %s' % m)
        cut = n // 3
        for lo, hi in ((0, cut), (cut, n)):
            if hi > lo:
                p.add('acc %s %s %s' % (m2, p.tensor([hi - lo], yp[lo:hi]), p.tensor([hi - lo], yt[lo:hi]))); p.add('result %s' % m2)
        p.tag('size-sweep')
        progs.append(p)
    return progs

def sweep_C11(tier):
    progs = []
    for n in [s for s in sizes(tier) if s <= 260]:
        p = Prog('sz11_%d' % n)
        f = p.bind('fc %d 1' % n, 'f')
        pw, pb = p.bind('weight %s 0' % f, 'p'), p.bind('weight %s 1' % f, 'p')
        w = p.tensor([1], [0.01], tracked=True); b = p.tensor([1], [0.1], tracked=True)
        p.add('setptr %s %s' % (pw, w)); p.add('setptr %s %s' % (pb, b))
        j = p.bind('mse', 'j'); o = p.bind('sgd %s' % f2b(0.001), 'o')
        x = p.tensor([1, n], [float((k * 7) % 5 - 2) * 0.25 for k in range(n)])
        tgt = p.tensor([1], [0.5])
        for step in range(2):
            y = p.bind('fwd %s %s' % (f, x)); y = p.bind('squeeze %s 1' % y)
            l = p.bind('loss %s %s %s' % (j, y, tgt)); p.add('obs %s' % l); p.add('bp %s' % l)
            for q in (pw, pb):
                p.add('upd %s %s' % (o, q)); t = p.bind('deref %s' % q); p.add('reset %s 1' % t); p.add('obs %s' % t)
        p.tag('size-sweep')
        progs.append(p)
    return progs
