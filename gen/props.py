"""Registry: property id -> generator (+ optional extra check, per-command timeout)."""
import fwd, grad

REGISTRY = {
    'C01': {'gen': grad.gen_C01, 'cmd_timeout_ms': 8000},
    'C02': {'gen': grad.gen_C02},
    'C03': {'gen': fwd.gen_C03},
    'C04': {'gen': fwd.gen_C04},
    'C05': {'gen': fwd.gen_C05},
    'C06': {'gen': fwd.gen_C06},
    'C07': {'gen': grad.gen_C07},
    'C08': {'gen': grad.gen_C08},
}
