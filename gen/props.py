"""Registry: property id -> generator (+ optional extra check, per-command timeout)."""
import fwd, grad, comp, total, rnd, sizes

REGISTRY = {
    'C01': {'gen': grad.gen_C01, 'cmd_timeout_ms': 8000, 'once': grad.deep_shared},
    'C02': {'gen': grad.gen_C02, 'once': lambda tier: grad.exhaustive_backward(tier) + sizes.sweep_C02(tier)},
    'C03': {'gen': fwd.gen_C03, 'once': sizes.sweep_C03},
    'C04': {'gen': fwd.gen_C04, 'once': sizes.sweep_C04},
    'C05': {'gen': fwd.gen_C05, 'once': sizes.sweep_C05},
    'C06': {'gen': fwd.gen_C06, 'once': sizes.sweep_C06},
    'C07': {'gen': grad.gen_C07, 'once': sizes.sweep_C07},
    'C08': {'gen': grad.gen_C08, 'cmd_timeout_ms': 8000, 'once': lambda tier: grad.exhaustive_flag_states(tier) + grad.deep_shared(tier)},
    'C09': {'gen': total.gen_C09, 'once': lambda tier: total.exhaustive_small_scope('quick' if tier == 'quick' else 'thorough') + grad.exhaustive_backward(tier) + sizes.sweep_C04(tier)},
    'C10': {'gen': total.gen_C10},
    'C11': {'gen': comp.gen_C11, 'once': sizes.sweep_C11},
    'C12': {'gen': comp.gen_C12, 'once': sizes.sweep_C12},
    'C13': {'gen': comp.gen_C13, 'once': sizes.sweep_C12},
    'C14': {'gen': comp.gen_C14, 'once': lambda tier: sizes.sweep_C14(tier) + comp.oracle_progs(tier, with_bp=False), 'extra': comp.extra_oracle('value')},
    'C15': {'gen': comp.gen_C15, 'once': lambda tier: sizes.sweep_C14(tier) + comp.oracle_progs(tier), 'extra': comp.extra_oracle('grad')},
    'C16': {'gen': comp.gen_C16, 'once': sizes.sweep_C16},
    'C17': {'gen': comp.gen_C17, 'once': sizes.sweep_C17},
    'C18': {'gen': rnd.gen_C18, 'extra': rnd.extra_C18, 'once': sizes.sweep_C18},
    'C19': {'gen': comp.gen_C19, 'once': sizes.sweep_C19},
    'C20': {'gen': rnd.gen_C20, 'race': True, 'env': {'HARNESS_NO_RAW': '1'}, 'extra': rnd.extra_C20},
}
