"""Generators for the component properties C11-C19."""
import random, math, itertools, re, os
import runner
from lib import *
from grad import weights, finish, SAFE_UN

EPS = 1e-12

def identity_step(p, rng, x, shape):
    """an operation that changes neither shape nor values: a result that must nevertheless be a NEW tensor with its own
    gradient state (same-shape Reshape / Broadcast, Flatten from the last dimension, whole-range Slice, UnSqueeze + Squeeze,
    a one-element Concat, Scale by 1, Pow 1)"""
    r = len(shape)
    how = rng.choice(['reshape', 'reshape', 'flatten-last', 'broadcast', 'slice-all', 'unsq-sq', 'concat1', 'scale1', 'pow1']
                     if r >= 1 else ['reshape', 'broadcast', 'scale1', 'pow1'])
    p.tag('identity-step', 'identity:' + how)
    if how == 'reshape':
        return p.bind('reshape %s %s' % (x, ints(shape)))
    if how == 'flatten-last':
        return p.bind('flatten %s %d' % (x, r - 1))
    if how == 'broadcast':
        return p.bind('broadcast %s %s' % (x, ints(shape)))
    if how == 'slice-all':
        k = rng.randint(0, r)
        return p.bind('slice %s %s' % (x, ranges([(0, shape[d]) if rng.random() < 0.6 else (0, 0) for d in range(k)]) if k else 'slice %s -' % x)
                      if k else 'slice %s -' % x)
    if how == 'unsq-sq':
        d = rng.randint(0, r)
        return p.bind('squeeze %s %d' % (p.bind('unsqueeze %s %d' % (x, d)), d))
    if how == 'concat1':
        return p.bind('concat %s %d' % (x, rng.randrange(r)))
    if how == 'scale1':
        return p.bind('scale %s %s' % (x, f2b(1.0)))
    return p.bind('pow %s %s' % (x, f2b(1.0)))

def upstream(p, rng, x, depth, shape=None):
    """feed x through 0..depth tracked operations that keep the shape; returns the new tensor"""
    for _ in range(depth):
        if shape is not None and rng.random() < 0.3:
            x = identity_step(p, rng, x, shape)
            continue
        k = rng.random()
        if k < 0.35:
            x = p.bind('scale %s %s' % (x, f2b(rng.choice([0.5, 1.0, 0.75]))))
        elif k < 0.5:
            y = p.bind('scale %s %s' % (x, f2b(0.5)))
            x = p.bind('add %s %s' % (x, y))       # fan-out of x
            x = p.bind('scale %s %s' % (x, f2b(2.0 / 3.0)))
        elif k < 0.75:
            # a residual step whose RESULT is what the component consumes: x + f(x) in either operand order (the order decides
            # which contribution reaches x first in the walk), f(x) = c*x with 0 < 1 + c <= 1 so that values in (0, 1) stay there;
            # the Add hands its gradient on to both operands unchanged, so x, f(x) and the result must not share gradient state
            y = p.bind('scale %s %s' % (x, f2b(rng.choice([-0.25, -0.5, -0.125]))))
            x = p.bind('add %s %s' % ((y, x) if rng.random() < 0.6 else (x, y)))
            p.tag('residual-step')
        else:
            x = p.bind('mul %s %s' % (x, p.bind('pow %s %s' % (x, f2b(0.0)))))
    return x

def act_cmd(rng, kind, rank):
    if kind == 'leaky':
        return 'leaky ' + rng.choice(['nil', f2b(0.5), f2b(0.0), f2b(-0.25), f2b(2.0)])
    if kind == 'softmax':
        return 'softmax ' + (rng.choice(['nil', '0']) if rank <= 1 or rng.random() < 0.3 else str(rng.randrange(rank)))
    return kind

ACTS = ['relu', 'leaky', 'sigmoid', 'tanh', 'softmax']

def act_values(rng, n, kind):
    special = [0.0, -0.0, 1.0, -1.0, 0.5, -3.0, 20.0, -20.0]
    if kind == 'softmax':
        special += [700.0, -700.0, 350.0]
    else:
        special += [700.0, -700.0, 1e6, -1e6] if kind in ('relu', 'leaky', 'tanh') else [30.0, -30.0]
    return [rng.choice(special) if rng.random() < 0.4 else rng.uniform(-3, 3) for _ in range(n)]

def gen_C14(rng, tier):
    progs = []
    cnt = 400 if tier == 'quick' else 8000
    for i in range(cnt):
        kind = ACTS[i % len(ACTS)]
        shape = rand_shape(rng, 5, 3 if i % 3 else 2, 1 if kind == 'softmax' else 0)
        p = Prog('c14_%s%d' % (kind, i))
        cmd = act_cmd(rng, kind, len(shape))
        if kind != 'softmax' and rng.random() < 0.1:
            cmd = 'zero ' + kind          # the zero value of the struct (LeakyRelu: slope 0)
            p.tag('zero-value-object')
        a = p.bind(cmd, 'a')
        vals = act_values(rng, prod(shape), kind)
        if kind == 'softmax':
            # keep e^x finite and the normaliser well inside the float range
            vals = [v if abs(v) <= 700 else 0.0 for v in vals]
            if max(vals) >= 700: vals = [min(v, 690.0) for v in vals]
        if kind == 'softmax' and i % 2 == 0:
            # slices along Dim living at very different magnitudes (each slice: base + small offsets)
            d0 = 0 if cmd.endswith('nil') else int(cmd.split(' ')[1])
            bases = {}
            vals = []
            for idx in itertools.product(*[range(q) for q in shape]):
                key = idx[:d0] + idx[d0 + 1:]
                if key not in bases:
                    bases[key] = rng.choice([699.0, 350.0, 0.0, -350.0, -699.0, 10.0])
                vals.append(bases[key] - rng.choice([0.0, 0.5, 1.0, 2.0]))
            p.tag('softmax-slices-far-apart')
        x = p.tensor(shape, vals, tracked=rng.random() < 0.5)
        y = p.bind('fwd %s %s' % (a, x))
        p.add('obs %s' % y)
        if kind == 'softmax':
            d = 0 if cmd.endswith('nil') else int(cmd.split(' ')[1])
            s = p.bind('sumalong %s %d' % (y, d)); p.add('obs %s' % s)
            p.tag('softmax-dim%d-rank%d' % (d, len(shape)))
        if rng.random() < 0.35:
            # the same activation object again, after a back-propagation through its first result
            x1 = p.tensor(shape, act_values(rng, prod(shape), 'sigmoid'), tracked=True)
            y1 = p.bind('fwd %s %s' % (a, x1)); p.add('bp %s' % y1)
            x2 = p.tensor(shape, act_values(rng, prod(shape), 'sigmoid'), tracked=True)
            y2 = p.bind('fwd %s %s' % (a, x2)); p.add('obs %s' % y2)
            p.tag('object-reused')
        if kind != 'softmax' and rng.random() < 0.15:
            # special values at specific positions
            sv = [rng.choice([float('nan'), float('inf'), float('-inf'), -0.0, 0.0, 1.7e308, -1.7e308]) if rng.random() < 0.5 else v
                  for v in act_values(rng, prod(shape), 'sigmoid')]
            xs = p.tensor(shape, sv); ys = p.bind('fwd %s %s' % (a, xs)); p.add('obs %s' % ys)
            p.tag('special-values')
        p.tag(kind, 'rank%d' % len(shape))
        progs.append(p)
    # ONE activation object used by several goroutines at once on inputs of DIFFERENT shapes and ranks: Forward is a function of
    # its argument, whatever other calls on the same object are in flight
    for i in range(40 if tier == 'quick' else 600):
        kind = ACTS[i % len(ACTS)]
        p = Prog('c14_shared_%s%d' % (kind, i))
        a = p.bind('softmax %d' % rng.choice([0, 1]) if kind == 'softmax' else act_cmd(rng, kind, 2), 'a')
        nthreads = rng.choice([2, 3, 4, 8])
        p.add('par')
        for tid in range(nthreads):
            p.add('thread')
            for k in range(rng.randint(2, 4)):
                shape = rand_shape(rng, 4, 3, 2 if kind == 'softmax' else 0)
                vals = [v if abs(v) <= 30 else 0.5 for v in act_values(rng, prod(shape), 'sigmoid')]
                x = 'th%d_x%d' % (tid, k); y = 'th%d_y%d' % (tid, k)
                p.add('%s = tensorof %s %d %s' % (x, rng.choice(['T', 'U']), len(shape), nested(shape, vals)))
                p.add('%s = fwd %s %s' % (y, a, x)); p.add('obs %s' % y)
            p.add('endthread')
        p.add('endpar')
        p.tag('shared-object-concurrent', kind, 'threads%d' % nthreads)
        progs.append(p)
    return progs

def gen_C15(rng, tier):
    progs = []
    cnt = 400 if tier == 'quick' else 8000
    for i in range(cnt):
        kind = ACTS[i % len(ACTS)]
        shape = rand_shape(rng, 4, 3, 1 if kind == 'softmax' else 0)
        p = Prog('c15_%s%d' % (kind, i))
        cmd = act_cmd(rng, kind, len(shape))
        if kind != 'softmax' and rng.random() < 0.1:
            cmd = 'zero ' + kind          # the zero value of the struct (LeakyRelu: slope 0)
            p.tag('zero-value-object')
        a = p.bind(cmd, 'a')
        n = prod(shape)
        if kind == 'softmax':
            vals = [rng.uniform(-3, 3) for _ in range(n)]
        elif kind == 'sigmoid':
            vals = [rng.choice([0.0, 0.0, 1.0, -2.0, 10.0, -10.0]) if rng.random() < 0.5 else rng.uniform(-3, 3) for _ in range(n)]
        else:
            vals = [rng.choice([0.0, 1.0, -1.0, 5.0, -5.0]) if rng.random() < 0.5 else rng.uniform(-3, 3) for _ in range(n)]
        x0 = p.tensor(shape, vals, tracked=True)
        depth = rng.randint(0, 3)
        x = upstream(p, rng, x0, depth, shape)
        y = p.bind('fwd %s %s' % (a, x))
        # (a skip connection around the activation: its input is also consumed, directly, by what consumes its output)
        finish(p, y, shape, rng, [x0, x], skip=x, skip_exact=(kind in ('relu', 'leaky')))
        if rng.random() < 0.4:
            # second and third round through the SAME activation object, same input shape
            for rnd in range(rng.randint(1, 2)):
                xb = p.tensor(shape, [v + 0.25 * (rnd + 1) for v in vals], tracked=True)
                xb2 = upstream(p, rng, xb, rng.randint(0, 1), shape)
                yb = p.bind('fwd %s %s' % (a, xb2))
                finish(p, yb, shape, rng, [xb, xb2])
            p.tag('object-reused')
        if rng.random() < 0.3:
            # the SAME input tensor again after ResetGradContext: its gradient is that of the new back-propagation only
            p.add('reset %s %d' % (x0, rng.choice([1, 1, 0])))
            xr = p.bind('scale %s %s' % (x0, f2b(2.0)))
            yr = p.bind('fwd %s %s' % (a, xr))
            finish(p, yr, shape, rng, [x0, xr])
            p.tag('input-reset-in-place')
        p.tag(kind, 'upstream%d' % depth)
        if kind == 'softmax' and n > 1: p.tag('softmax-multi')
        progs.append(p)
    return progs

def loss_shapes(rng, kind):
    b = rng.randint(1, 5)
    return [b, rng.randint(1, 4)] if kind == 'ce' else [b]

def pred_values(rng, n, inside):
    if inside:
        return [rng.uniform(0.05, 0.95) for _ in range(n)]
    special = [0.0, 1.0, -3.0, 7.0, 1e6, -1e6, EPS, 1 - EPS, EPS + 1e-13, EPS - 1e-13, 1 - EPS + 1e-13, 1 - EPS - 1e-13, 0.5]
    return [rng.choice(special) if rng.random() < 0.6 else rng.uniform(0, 1) for _ in range(n)]

def near_bound_values(rng, n):
    """predictions a few units in the last place away from the clip bounds (and from 0 and 1): strictly inside the band the
    derivative is the analytic one, strictly outside it is 0 — a bound is 'hit' only within the code's 1e-240 threshold"""
    out = []
    for _ in range(n):
        base = rng.choice([EPS, 1 - EPS, EPS, 1 - EPS, 0.0, 1.0, 0.5])
        k = rng.choice([-16, -8, -4, -3, -2, -1, 0, 1, 2, 3, 4, 8, 16])
        out.append(ulps(base, k) if rng.random() < 0.8 else rng.uniform(0.05, 0.95))
    return out

def target_values(rng, kind, shape):
    """targets of several kinds: hard labels, soft labels whose rows sum to exactly 1 (dyadic fractions), multi-hot,
    all-zero rows, arbitrary values in [0,1], out-of-range values (clipped by the losses)"""
    n = prod(shape)
    tk = rng.choice(['hard', 'soft-sum1', 'multihot', 'zero-row', 'unit-interval', 'out-of-range'])
    if kind == 'ce':
        rows, k = shape
        out = []
        for r in range(rows):
            if tk == 'hard':
                row = [0.0] * k; row[rng.randrange(k)] = 1.0
            elif tk == 'soft-sum1':
                # dyadic weights: the row sums to exactly 1.0 in binary64
                cuts = sorted(rng.randint(0, 16) for _ in range(k - 1))
                parts = [b - a for a, b in zip([0] + cuts, cuts + [16])]
                row = [v / 16.0 for v in parts]
            elif tk == 'multihot':
                row = [float(rng.randint(0, 1)) for _ in range(k)]
            elif tk == 'zero-row':
                row = [0.0] * k if r % 2 == 0 else [float(j == 0) for j in range(k)]
            elif tk == 'unit-interval':
                row = [rng.uniform(0, 1) for _ in range(k)]
            else:
                row = [rng.choice([0.0, 1.0, -3.0, 7.0, 0.5]) for _ in range(k)]
            out += row
        return out, tk
    if tk in ('hard', 'multihot', 'zero-row'):
        return [float(rng.randint(0, 1)) for _ in range(n)], tk
    if tk == 'soft-sum1':
        return [rng.choice([0.25, 0.5, 0.75, 0.125]) for _ in range(n)], tk
    if tk == 'unit-interval':
        return [rng.uniform(0, 1) for _ in range(n)], tk
    return [rng.choice([0.0, 1.0, -3.0, 7.0]) if rng.random() < 0.6 else rng.uniform(0, 1) for _ in range(n)], tk

def gen_C12(rng, tier):
    progs = []
    cnt = 400 if tier == 'quick' else 8000
    for i in range(cnt):
        kind = ['mse', 'bce', 'ce'][i % 3]
        shape = loss_shapes(rng, kind)
        n = prod(shape)
        p = Prog('c12_%s%d' % (kind, i))
        # (sometimes the zero value of the struct instead of the constructor's result: `new(losses.BCE)`)
        j = p.bind('zero ' + kind if rng.random() < 0.12 else kind, 'j')
        if kind == 'mse' and i % 2 == 0:
            # large, nearly equal prediction and target: the loss is tiny compared with the inputs
            base = rng.choice([1e4, 1e5, 1e6, -1e6, 3.0])
            yp = [base + rng.uniform(-1, 1) for _ in range(n)]
            yt = [v + rng.choice([1e-3, -1e-3, 1e-2, 0.0]) for v in yp]
            p.tag('mse-large-nearly-equal')
        elif kind == 'mse':
            yp = [rng.choice([0.0, 1.0, -3.0, 7.0, 1e6, -1e6]) if rng.random() < 0.4 else rng.uniform(-5, 5) for _ in range(n)]
            yt = [rng.choice([0.0, 1.0, 1e6]) if rng.random() < 0.3 else rng.uniform(-5, 5) for _ in range(n)]
        else:
            yp = pred_values(rng, n, False)
            yt, tk = target_values(rng, kind, shape)
            p.tag('targets-' + tk)
        if rng.random() < 0.12:
            # an EARLIER call on the same loss object and batch shape with non-finite / huge entries: whatever the object
            # keeps from it must not reach the later calls
            bad = list(yp)
            for _ in range(rng.randint(1, 2)):
                bad[rng.randrange(n)] = rng.choice([float('nan'), float('inf'), float('-inf'), 1e308, -1e308])
            tb = p.tensor(shape, bad, tracked=rng.random() < 0.5)
            tbt = p.tensor(shape, yt, tracked=False)
            lb = p.bind('loss %s %s %s' % (j, tb, tbt)); p.add('obs %s' % lb)
            p.tag('non-finite-earlier-call')
        tp = p.tensor(shape, yp, tracked=False)
        tt = p.tensor(shape, yt, tracked=False)
        l = p.bind('loss %s %s %s' % (j, tp, tt)); p.add('obs %s' % l)
        # tracking must not change the value
        tp2 = p.tensor(shape, yp, tracked=True)
        tt2 = p.tensor(shape, yt, tracked=rng.random() < 0.5)
        l2 = p.bind('loss %s %s %s' % (j, tp2, tt2)); p.add('equals %s %s' % (l, l2))
        if rng.random() < 0.3:
            p.add('bp %s' % l2)
            tp3 = p.tensor(shape, yp[::-1], tracked=True)
            l3 = p.bind('loss %s %s %s' % (j, tp3, tt)); p.add('obs %s' % l3)
            p.tag('object-reused')
        p.tag(kind, 'batch%d' % shape[0])
        progs.append(p)
    return progs

def gen_C13(rng, tier):
    progs = []
    cnt = 400 if tier == 'quick' else 8000
    for i in range(cnt):
        kind = ['mse', 'bce', 'ce'][i % 3]
        shape = loss_shapes(rng, kind)
        n = prod(shape)
        p = Prog('c13_%s%d' % (kind, i))
        # (sometimes the zero value of the struct instead of the constructor's result: `new(losses.BCE)`)
        j = p.bind('zero ' + kind if rng.random() < 0.12 else kind, 'j')
        mode = rng.choice(['inside', 'inside', 'clipped', 'near-bound'])
        if kind == 'mse':
            yp = [rng.uniform(-3, 3) for _ in range(n)]
            # some targets equal their prediction exactly (the derivative there is 0, finite)
            yt = [v if rng.random() < 0.3 else rng.uniform(-3, 3) for v in yp]
            if any(a == b for a, b in zip(yp, yt)): p.tag('mse-exact-hit')
        else:
            yp = pred_values(rng, n, True)
            if mode == 'clipped':
                yp = [rng.choice([0.0, 1.0]) if rng.random() < 0.5 else v for v in yp]
            if mode == 'near-bound':
                yp = near_bound_values(rng, n)
            yt, tk = target_values(rng, kind, shape)
            p.tag('targets-' + tk)
        if rng.random() < 0.12:
            bad = list(yp)
            for _ in range(rng.randint(1, 2)):
                bad[rng.randrange(n)] = rng.choice([float('nan'), float('inf'), float('-inf'), 1e308, -1e308])
            tb = p.tensor(shape, bad, tracked=rng.random() < 0.5)
            lb = p.bind('loss %s %s %s' % (j, tb, p.tensor(shape, yt))); p.add('obs %s' % lb)
            if rng.random() < 0.5: p.add('bp %s' % lb); p.add('obs %s' % tb)
            p.tag('non-finite-earlier-call')
        depth = rng.randint(0, 3)
        tp0 = p.tensor(shape, yp, tracked=True)
        tp = upstream(p, rng, tp0, depth, shape)
        tt = p.tensor(shape, yt, tracked=rng.random() < 0.3)
        l = p.bind('loss %s %s %s' % (j, tp, tt))
        p.add('bp %s' % l)
        p.add('obs %s' % tp); p.add('obs %s' % tp0); p.add('obs %s' % tt)
        if rng.random() < 0.4:
            # further rounds with the SAME loss object and the same batch shape
            for rnd in range(rng.randint(1, 2)):
                q0 = p.tensor(shape, [min(0.95, max(0.05, v * 0.9 + 0.03)) if kind != 'mse' else v + 0.5 for v in yp], tracked=True)
                q = upstream(p, rng, q0, rng.randint(0, 1), shape)
                l2 = p.bind('loss %s %s %s' % (j, q, tt)); p.add('obs %s' % l2)
                p.add('bp %s' % l2); p.add('obs %s' % q); p.add('obs %s' % q0)
            p.tag('object-reused')
        if rng.random() < 0.3:
            # the SAME prediction leaf again after ResetGradContext with the flag it already has (or the other one), against
            # a different target: the gradient is that of the new loss only
            flag = rng.choice([1, 1, 0])
            p.add('reset %s %d' % (tp0, flag))
            yt2, _ = target_values(rng, kind, shape) if kind != 'mse' else ([rng.uniform(-3, 3) for _ in range(n)], '')
            tt2 = p.tensor(shape, yt2)
            l3 = p.bind('loss %s %s %s' % (j, tp0, tt2)); p.add('obs %s' % l3)
            p.add('bp %s' % l3); p.add('obs %s' % tp0)
            p.tag('prediction-reset-in-place')
        p.tag(kind, mode, 'upstream%d' % depth)
        progs.append(p)
    return progs

def new_fc(p, rng, fi, fo, custom=True, frozen=(False, False)):
    """FC with non-uniform parameters installed through the Weights() pointers; frozen = (weight, bias) installed untracked"""
    f = p.bind('fc %d %d' % (fi, fo), 'f')
    pw, pb = p.bind('weight %s 0' % f, 'p'), p.bind('weight %s 1' % f, 'p')
    if custom:
        w = p.tensor([fo], [rng.uniform(-1, 1) for _ in range(fo)], tracked=not frozen[0])
        b = p.tensor([fo], [rng.uniform(-1, 1) for _ in range(fo)], tracked=not frozen[1])
        p.add('setptr %s %s' % (pw, w)); p.add('setptr %s %s' % (pb, b))
    return f, pw, pb

def gen_C16(rng, tier):
    progs = []
    cnt = 300 if tier == 'quick' else 6000
    for i in range(cnt):
        p = Prog('c16_%d' % i)
        p.add('seedrng %d' % rng.randrange(1, 1000))
        batch, fi, fo = rng.randint(1, 4), min(dim_size(rng, 4), 17), min(dim_size(rng, 4), 17)
        mode = rng.choice(['custom', 'custom', 'default', 'inits'])
        if mode == 'inits':
            iw = p.bind('init ' + rng.choice(['full %s' % f2b(0.5), 'uniform nil', 'normal nil', 'heuniform %d' % fi, 'henormal %d' % fi,
                                             'xavieruniform %d %d' % (fi, fo), 'xaviernormal %d %d' % (fi, fo)]), 'i')
            # the raw-draw replay cannot follow a switch between the uniform and the normal stream inside one
            # constructor call, so a random Bias initializer is only combined with a Weight initializer of the same family
            wline = p.lines[-1]
            bchoices = ['full %s' % f2b(-1.0), 'full nil']
            if 'uniform' in wline: bchoices.append('uniform %s %s' % (f2b(0.0), f2b(1.0)))
            if 'normal' in wline: bchoices.append('normal %s %s' % (f2b(1.0), f2b(0.5)))
            ib = p.bind('init ' + rng.choice(bchoices), 'i')
            f = p.bind('fc %d %d W=%s B=%s' % (fi, fo, iw, ib), 'f')
            pw, pb = p.bind('weight %s 0' % f, 'p'), p.bind('weight %s 1' % f, 'p')
        else:
            f, pw, pb = new_fc(p, rng, fi, fo, custom=(mode == 'custom'))
        x = p.tensor([batch, fi], [rng.uniform(-2, 2) for _ in range(batch * fi)], tracked=rng.random() < 0.6)
        y = p.bind('fwd %s %s' % (f, x)); p.add('obs %s' % y)
        # replacement through the pointers is what the next Forward reads
        if rng.random() < 0.5:
            w2 = p.tensor([fo], [rng.uniform(-1, 1) for _ in range(fo)], tracked=True)
            p.add('setptr %s %s' % (pw, w2))
            y = p.bind('fwd %s %s' % (f, x)); p.add('obs %s' % y)
            p.tag('replaced')
        finish(p, y, [batch, fo], rng, [x], skip=x, skip_shape=[batch, fi])
        for q in (pw, pb):
            t = p.bind('deref %s' % q); p.add('obs %s' % t)
        # the layer object is used again: further cycles after the parameters were reset in place, updated by the
        # optimizer, replaced through the pointers, or left spent (then the next pass is detached from them)
        if rng.random() < 0.3:
            # the same layer applied to two inputs (and one tracked input fed to the layer twice) with BOTH forward passes
            # before the first BackPropagate: the parameters' gradients are the SUM over the two walks
            for q in (pw, pb):
                t = p.bind('deref %s' % q); p.add('reset %s 1' % t)
            xa = p.tensor([batch, fi], [rng.uniform(-2, 2) for _ in range(batch * fi)], tracked=True)
            xb = p.tensor([batch, fi], [rng.uniform(-2, 2) for _ in range(batch * fi)], tracked=rng.random() < 0.5)
            ya = p.bind('fwd %s %s' % (f, xa)); yb = p.bind('fwd %s %s' % (f, xb)); yc = p.bind('fwd %s %s' % (f, xa))
            for yy in (ya, yb, yc):
                g = p.tensor([batch, fo], weights(rng, batch * fo))
                p.add('bp %s' % p.bind('mul %s %s' % (yy, g)))
                for q in (pw, pb):
                    t = p.bind('deref %s' % q); p.add('obs %s' % t)
                p.add('obs %s' % xa); p.add('obs %s' % xb)
            p.tag('forwards-before-backwards')
        cycles = rng.choice([0, 0, 1, 1, 2])
        for c in range(cycles):
            between = rng.choice(['reset-in-place', 'reset-in-place', 'update+reset', 'replace', 'nothing', 'reset-one'])
            if between == 'reset-in-place':
                for q in (pw, pb):
                    t = p.bind('deref %s' % q); p.add('reset %s 1' % t)
            elif between == 'reset-one':
                t = p.bind('deref %s' % rng.choice([pw, pb])); p.add('reset %s 1' % t)
            elif between == 'update+reset':
                o = p.bind('sgd %s' % f2b(rng.choice([0.5, 0.125])), 'o')
                for q in (pw, pb):
                    p.add('upd %s %s' % (o, q))
                    t = p.bind('deref %s' % q); p.add('reset %s %d' % (t, rng.choice([1, 1, 0])))
            elif between == 'replace':
                w3 = p.tensor([fo], [rng.uniform(-1, 1) for _ in range(fo)], tracked=rng.random() < 0.8)
                p.add('setptr %s %s' % (rng.choice([pw, pb]), w3))
            b2 = rng.randint(1, 3)
            x2 = p.tensor([b2, fi], [rng.uniform(-2, 2) for _ in range(b2 * fi)], tracked=rng.random() < 0.6)
            y2 = p.bind('fwd %s %s' % (f, x2)); p.add('obs %s' % y2)
            finish(p, y2, [b2, fo], rng, [x2])
            for q in (pw, pb):
                t = p.bind('deref %s' % q); p.add('obs %s' % t)
            p.tag('cycle:' + between)
        p.tag(mode, 'batch%d' % batch, 'batch>1' if batch > 1 else 'batch1', 'cycles%d' % cycles)
        progs.append(p)
    return progs

def gen_C17(rng, tier):
    progs = []
    cnt = 300 if tier == 'quick' else 6000
    for i in range(cnt):
        p = Prog('c17_%d' % i)
        f = p.bind('fc 1 1', 'f')
        pw = p.bind('weight %s 0' % f, 'p')
        shape = rand_shape(rng, 5, 3, 0)
        n = prod(shape)
        mag = rng.choice([1.0, 1.0, 1.0, 1e-250, 1e-120, 1e120, 1e-5])
        w = p.tensor(shape, [rng.uniform(-2, 2) * mag for _ in range(n)], tracked=True)
        p.add('setptr %s %s' % (pw, w))
        p.tag('magnitude%g' % mag)
        lr = rng.choice(['nil', f2b(0.0), f2b(-0.5), f2b(0.1), f2b(3.0), f2b(0.5)])
        o = p.bind('zero sgd' if rng.random() < 0.08 else 'sgd %s' % lr, 'o')     # zero value: learning rate 0
        case = rng.choice(['ok', 'ok', 'ok', 'nograd', 'nilw', 'nilptr'])
        if case == 'ok':
            # gradient from an arbitrary back-propagated graph
            if rng.random() < 0.3:
                a = p.bind('%s %s' % (rng.choice(SAFE_UN), w))
                b = p.bind('mul %s %s' % (a, w))
                c = p.bind('add %s %s' % (b, a))
            else:
                # no libm on the path, every value the result of single correctly rounded operations (products, one two-term
                # sum): compared BIT-exactly with the model, without the slack granted to re-associated sums
                p.tag('bit-exact')
                k = p.tensor(shape, [rng.uniform(-2, 2) for _ in range(n)])
                a = p.bind('mul %s %s' % (w, k))
                b = p.bind('scale %s %s' % (w, f2b(rng.choice([0.5, 1.0, -0.25]))))
                c = p.bind('add %s %s' % (a, b))
                if rng.random() < 0.5:
                    c = p.bind('scale %s %s' % (c, f2b(mag)))      # gradient of the same (tiny / huge) magnitude as the weight
                    p.tag('gradient-magnitude-matches-weight')
            p.add('bp %s' % c)
            p.add('obs %s' % w)
            p.add('upd %s %s' % (o, pw))
            nw = p.bind('deref %s' % pw); p.add('obs %s' % nw)
            p.add('obs %s' % w)     # the previous tensor object and its gradient are unchanged
            # a second update without reset: the replaced weight has no gradient
            p.add('upd %s %s' % (o, pw))
            if rng.random() < 0.5:
                # further steps through the SAME pointer and optimizer: the tensor behind it is replaced by one of another
                # shape (or the same), an earlier gradient may have been non-finite — every step is w - lr*g of ITS tensor
                for stepk in range(rng.randint(1, 3)):
                    shape2 = shape if rng.random() < 0.4 else rand_shape(rng, 4, 3, 0)
                    n2 = prod(shape2)
                    w2 = p.tensor(shape2, [rng.uniform(-2, 2) for _ in range(n2)], tracked=True)
                    p.add('setptr %s %s' % (pw, w2))
                    gk = [rng.uniform(-2, 2) for _ in range(n2)]
                    if rng.random() < 0.25:
                        gk[rng.randrange(n2)] = rng.choice([float('inf'), float('-inf'), float('nan'), 1e308])
                        p.tag('non-finite-gradient-step')
                    k2 = p.tensor(shape2, gk)
                    c2 = p.bind('mul %s %s' % (w2, k2))
                    p.add('bp %s' % c2)
                    p.add('upd %s %s' % (o, pw))
                    nw2 = p.bind('deref %s' % pw); p.add('obs %s' % nw2); p.add('obs %s' % w2)
                p.tag('pointer-reused')
        elif case == 'nograd':
            p.add('upd %s %s' % (o, pw)); t = p.bind('deref %s' % pw); p.add('obs %s' % t)
        elif case == 'nilw':
            p.add('setptr %s nil' % pw); p.add('upd %s %s' % (o, pw))
        else:
            p.add('upd %s nilptr' % o); t = p.bind('deref %s' % pw); p.add('obs %s' % t)
        p.tag(case, 'rank%d' % len(shape), 'lr-' + ('default' if lr == 'nil' else 'given'))
        progs.append(p)
    return progs

def gen_C19(rng, tier):
    progs = []
    cnt = 300 if tier == 'quick' else 6000
    for i in range(cnt):
        p = Prog('c19_%d' % i)
        m = p.bind('zero accuracy' if rng.random() < 0.15 else 'accuracy', 'm')
        m2 = p.bind('accuracy', 'm')   # same data, different partition
        p.add('result %s' % m)
        total = rng.randint(1, 12)
        if i % 8 == 7:
            total = rng.choice([63, 65, 70, 100, 129, 200, 257, 1000, 1030])   # long batches: block / threshold sizes
            p.tag('long-batch')
        # class labels of several conventions: 0..3, -1/+1, negative ids, fractional "soft" labels
        lab = rng.choice([(0, 3), (0, 3), (-1, 1), (-3, 0), (-1, 3)])
        labels = [float(v) for v in range(lab[0], lab[1] + 1)] + ([0.5, -0.5] if i % 5 == 4 else [])
        p.tag('labels%d..%d' % lab)
        yp = [rng.choice(labels) for _ in range(total)]
        yt = [v if rng.random() < 0.6 else rng.choice(labels) for v in yp]
        def feed(metric, cuts):
            prev = 0
            for c in cuts + [total]:
                if c > prev:
                    a = p.tensor([c - prev], yp[prev:c]); b = p.tensor([c - prev], yt[prev:c])
                    p.add('acc %s %s %s' % (metric, a, b))
                    p.add('result %s' % metric)
                    prev = c
                if rng.random() < 0.3:
                    # rejected calls must not change the counts
                    kind = rng.choice(['nil', 'rank', 'len'])
                    a = p.tensor([2], [1.0, 2.0])
                    if kind == 'nil': p.add('acc %s %s nil' % (metric, a))
                    elif kind == 'rank': p.add('acc %s %s %s' % (metric, p.tensor([1, 2], [1.0, 2.0]), a))
                    else: p.add('acc %s %s %s' % (metric, a, p.tensor([3], [1.0, 2.0, 3.0])))
                    p.add('result %s' % metric)
                    p.tag('rejected-' + kind)
        if i % 10 == 8:
            # near misses: predictions a few units in the last place away from the target, at several magnitudes — NOT matches
            for k in range(total):
                if rng.random() < 0.5:
                    base = rng.choice([1.0, 3.0, 0.1, 0.3, 1e-9, 1e9, 0.5, 2.0])
                    yt[k] = base
                    yp[k] = ulps(base, rng.choice([-4, -2, -1, 1, 2, 4, 64, 4096]))
            p.tag('near-miss-ulps')
        if i % 10 == 9:
            # special values: NaN never equals anything (not even itself), infinities equal themselves, -0 equals +0
            for k in range(total):
                if rng.random() < 0.4:
                    v = rng.choice([float('nan'), float('inf'), float('-inf'), -0.0, 0.0])
                    yp[k] = v
                    yt[k] = v if rng.random() < 0.7 else rng.choice([float('nan'), 0.0, -0.0, float('inf')])
            p.tag('special-values')
        feed(m, sorted(rng.sample(range(1, total), min(total - 1, rng.randint(0, 3)))) if total > 1 else [])
        feed(m2, sorted(rng.sample(range(1, total), min(total - 1, rng.randint(0, 3)))) if total > 1 else [])
        p.tag('total%d' % total)
        progs.append(p)
    return progs

def gen_C11(rng, tier):
    progs = []
    cnt = 120 if tier == 'quick' else 2500
    for i in range(cnt):
        p = Prog('c11_%d' % i)
        lossk = rng.choice(['mse', 'bce', 'ce'])
        fi, batch = dim_size(rng, 4), rng.randint(1, 4)
        if fi > 17: fi = rng.choice([10, 11, 14, 15])
        fo = rng.randint(1, 4) if lossk == 'ce' else 1
        actk = rng.choice(['none', 'relu', 'leaky', 'sigmoid', 'tanh'] + (['softmax'] if lossk == 'ce' else []))
        if lossk in ('bce', 'ce') and actk in ('none', 'relu', 'leaky', 'tanh'):
            actk = 'sigmoid'
        if i % 3 == 0:
            batch = 1
            if actk == 'softmax': actk = 'sigmoid'
        how = rng.choice(['custom', 'custom', 'shared-initializer', 'separate-initializers', 'initializer-used-before'])
        frozen = (False, False)
        if how == 'custom':
            # (a layer whose weight and / or bias is frozen — installed untracked — still passes gradients to what is in front)
            if rng.random() < 0.3:
                frozen = rng.choice([(True, False), (False, True), (True, True)])
                p.tag('frozen-w%d-b%d' % frozen)
            f, pw, pb = new_fc(p, rng, fi, fo, custom=True, frozen=frozen)
        else:
            # parameters straight from (constant) initializers: one instance for both parameters, one per parameter, or an
            # instance that already served another layer
            i1 = p.bind('init full %s' % f2b(rng.choice([0.5, -0.25, 1.0])), 'i')
            i2 = i1 if how != 'separate-initializers' else p.bind('init full %s' % f2b(rng.choice([0.5, 0.0])), 'i')
            if how == 'initializer-used-before':
                f0 = p.bind('fc %d %d W=%s B=%s' % (fi, fo, i1, i1), 'f')
                x0 = p.tensor([1, fi], [rng.uniform(-1, 1) for _ in range(fi)])
                y0 = p.bind('fwd %s %s' % (f0, x0)); p.add('bp %s' % y0)
            f = p.bind('fc %d %d W=%s B=%s' % (fi, fo, i1, i2), 'f')
            pw, pb = p.bind('weight %s 0' % f, 'p'), p.bind('weight %s 1' % f, 'p')
            p.tag(how)
        # a hidden layer in front (its parameters are trained too): the main layer's input is then a tracked tensor and the
        # hidden layer's gradients pass through the main layer's input gradient
        hidden = None
        if how == 'custom' and (rng.random() < 0.45 or frozen != (False, False)):
            fh = fi
            fi0 = rng.randint(1, 4)
            hf, hpw, hpb = new_fc(p, rng, fi0, fh, custom=True)
            hact = rng.choice([None, 'tanh', 'sigmoid', 'leaky'])
            ha = p.bind(act_cmd(rng, hact, 2), 'a') if hact else None
            hidden = (hf, hpw, hpb, ha, fi0)
            p.tag('hidden-layer', 'hidden-width%d' % fh, 'hidden-act:%s' % hact)
        dead = (how == 'custom' and lossk == 'mse' and actk == 'relu' and not hidden and rng.random() < 0.6)
        # pre-activations of tiny magnitude (1e-13 … 1e-15, not zero): a kink is hit only AT zero, so Relu / LeakyRelu treat them as
        # strictly positive or negative, and the clip of the losses lets a prediction of 1e-13 above its bound through
        tiny = (how == 'custom' and actk in ('relu', 'leaky') and not hidden and not dead and frozen == (False, False) and rng.random() < 0.35)
        if tiny:
            wt = p.tensor([fo], [rng.choice([1e-13, -1e-13, 3e-14, -2e-15]) for _ in range(fo)], tracked=True)
            bt = p.tensor([fo], [0.0] * fo, tracked=True)
            p.add('setptr %s %s' % (pw, wt)); p.add('setptr %s %s' % (pb, bt))
            p.tag('tiny-preactivations')
        if dead:
            # every pre-activation is negative: outputs and all gradients are exactly zero
            w0 = p.tensor([fo], [-1.0 - 0.5 * k for k in range(fo)], tracked=True)
            b0 = p.tensor([fo], [0.0] * fo, tracked=True)
            p.add('setptr %s %s' % (pw, w0)); p.add('setptr %s %s' % (pb, b0))
            p.tag('zero-gradient-step')
        a = None
        if actk != 'none':
            a = p.bind(act_cmd(rng, actk, 2) if actk != 'softmax' else 'softmax 1', 'a')
        j = p.bind(lossk, 'j')
        lr = rng.choice(['nil', f2b(0.1), f2b(0.0), f2b(-0.05), f2b(0.5)])
        o = p.bind('sgd %s' % lr, 'o')
        x = p.tensor([batch, hidden[4] if hidden else fi],
                     [rng.uniform(0.1, 1) if dead else rng.uniform(-1, 1) for _ in range(batch * (hidden[4] if hidden else fi))])
        # (sometimes the target is itself a tracked tensor: the loss must leave the caller's tensors as they are)
        tgt_tracked = rng.random() < 0.3
        if lossk == 'ce':
            tgt = p.tensor([batch, fo], [rng.choice([0.0, 1.0]) for _ in range(batch * fo)], tracked=tgt_tracked)
        else:
            tgt = p.tensor([batch], [rng.choice([0.0, 1.0]) if lossk == 'bce' else rng.uniform(-1, 1) for _ in range(batch)],
                           tracked=tgt_tracked)
        if tgt_tracked: p.tag('tracked-target')
        steps = rng.randint(1, 6 if tier == 'quick' else 10)
        skip_reset_at = rng.randrange(steps) if rng.random() < (0.7 if dead else 0.25) else None
        params = ([] if frozen[0] else [pw]) + ([] if frozen[1] else [pb]) + ([hidden[1], hidden[2]] if hidden else [])
        for s in range(steps):
            if hidden:
                h = p.bind('fwd %s %s' % (hidden[0], x))
                if hidden[3]: h = p.bind('fwd %s %s' % (hidden[3], h))
                y = p.bind('fwd %s %s' % (f, h))
            else:
                y = p.bind('fwd %s %s' % (f, x))
            if a: y = p.bind('fwd %s %s' % (a, y))
            if lossk != 'ce':
                y = p.bind('squeeze %s 1' % y)
            l = p.bind('loss %s %s %s' % (j, y, tgt))
            p.add('obs %s' % l)
            if tgt_tracked: p.add('obs %s' % tgt)
            p.add('bp %s' % l)
            if tgt_tracked:
                p.add('obs %s' % tgt)
                p.add('reset %s 1' % tgt)
            for q in params:
                p.add('upd %s %s' % (o, q))
                t = p.bind('deref %s' % q)
                if skip_reset_at == s and q == pw:
                    p.tag('missing-reset')
                else:
                    p.add('reset %s 1' % t)
                p.add('obs %s' % t)
        p.tag(lossk, actk, 'batch1' if batch == 1 else 'batch>1', 'steps%d' % steps)
        progs.append(p)
    return progs


# ------------------------------------------------------------------------------------------------ formula oracle
# The theorems give the activations' values and derivatives as real-number formulas (C14.*_value, C15x.*_local_vjp). The
# model is compared with the code on binary64; these programs compare the CODE with the theorems' formulas over the whole
# finite range — where binary64 over/underflow can make model and code agree on something that is not the formula.

RANGE_VALS = [0.0, -0.0, 1e-300, -1e-300, 1e-200, 1.0, -1.0, 0.5, -0.25, 30.0, -30.0, 36.5, -37.5, 300.0, -300.0, 700.0, -700.0,
              709.0, -709.0, 710.0, -710.0, 745.0, -745.5, 800.0, -800.0, 1e5, -1e5, 1e300, -1e300]
# (709.09 .. 709.78 is left out: there Go's math.Exp already returns +Inf while the C library behind the model does not)

def _sig(x):
    if x >= 0:
        e = math.exp(-x); return 1.0 / (1.0 + e)
    e = math.exp(x); return e / (1.0 + e)

def _dsig(x):
    e = math.exp(-abs(x)); return e / ((1.0 + e) * (1.0 + e))

def oracle_progs(tier, with_bp=True):
    progs = []
    ws = [0.75 + 0.125 * (i % 5) * (-1) ** i for i in range(len(RANGE_VALS))]
    for kind, cmd, m in (('relu', 'relu', None), ('leaky', 'leaky nil', 0.01), ('leaky', 'leaky ' + f2b(0.25), 0.25),
                         ('leaky', 'leaky ' + f2b(-0.5), -0.5), ('sigmoid', 'sigmoid', None), ('tanh', 'tanh', None)):
        for depth in (0, 1):
            p = Prog('oracle_%s_%s_%d' % (kind, str(m).replace('.', '_').replace('-', 'n'), depth))
            a = p.bind(cmd, 'a')
            xs = list(RANGE_VALS)
            x0 = p.tensor([len(xs)], xs, tracked=True)
            # depth 1: the activation's input is the output of an earlier tracked operation (x = 1 * x0)
            x = x0 if depth == 0 else p.bind('scale %s %s' % (x0, f2b(1.0)))
            y = p.bind('fwd %s %s' % (a, x)); p.add('obs %s' % y)
            if with_bp:
                g = p.tensor([len(xs)], ws)
                z = p.bind('mul %s %s' % (y, g))
                p.add('bp %s' % z)
                p.add('obs %s' % x0)
            p.oracle = (kind, m, xs, ws)
            p.tag('formula-oracle', kind)
            progs.append(p)
    # softmax rows with |x| <= 700 (values only: the gradient carries finding D2)
    rows = [[700.0, 699.0, -700.0], [-700.0, -700.0, -700.0], [700.0, 700.0, 700.0], [0.0, -700.0, 1.0], [-650.0, 20.0, -3.0], [5.0, 5.0, -5.0]]
    p = Prog('oracle_softmax')
    a = p.bind('softmax 1', 'a')
    x = p.tensor([len(rows), 3], [v for r in rows for v in r])
    y = p.bind('fwd %s %s' % (a, x)); p.add('obs %s' % y)
    p.oracle = ('softmax', None, rows, None)
    p.tag('formula-oracle', 'softmax')
    progs.append(p)
    return progs

def _close(a, b, rel=1e-9):
    if a != a or b != b: return False
    if a in (float('inf'), float('-inf')) or b in (float('inf'), float('-inf')): return a == b
    return abs(a - b) <= rel * max(abs(a), abs(b)) + 1e-300

def extra_oracle(which):
    """which = 'value' (C14) or 'grad' (C15)"""
    def extra(rng, tier, progs, results):
        info = {'oracle_programs': 0, 'oracle_points': 0}
        viol, known = [], []
        for r in results:
            orc = getattr(r.prog, 'oracle', None)
            if not orc or not r.h:
                continue
            info['oracle_programs'] += 1
            kind, m, xs, ws = orc
            obs = [l for l in r.h if ' dims=' in l and ' data=' in l]
            def data(l, key):
                mm = re.search(key + r'=([0-9,]+)', l)
                return [b2f(v) for v in mm.group(1).split(',')] if mm else None
            if kind == 'softmax':
                if which != 'value': continue
                got = data(obs[0], ' data') if obs else None
                flat = [v for row in xs for v in row]
                if not got or len(got) != len(flat):
                    viol.append(('%s: no forward values observed' % r.prog.name, r)); continue
                for ri, row in enumerate(xs):
                    mx = max(row); den = sum(math.exp(v - mx) for v in row)
                    for ci, v in enumerate(row):
                        info['oracle_points'] += 1
                        want = math.exp(v - mx) / den
                        if not _close(got[ri * len(row) + ci], want):
                            viol.append(('%s: softmax row %s element %d: got %r, e^x/sum e^x = %r' % (r.prog.name, row, ci, got[ri * len(row) + ci], want), r))
                continue
            if len(obs) < (2 if which == 'grad' else 1):
                viol.append(('%s: outputs not observed' % r.prog.name, r)); continue
            yv = data(obs[0], ' data'); gm = re.search(r'grad=dims=[^;]*;data=([0-9,]+)', obs[-1])
            gv = [b2f(v) for v in gm.group(1).split(',')] if gm else None
            for i, x in enumerate(xs):
                info['oracle_points'] += 1
                if kind == 'relu': f, d = max(0.0, x), (1.0 if x > 0 else 0.0)
                elif kind == 'leaky': f, d = max(0.0, x) + m * min(0.0, x), (1.0 if x > 0 else m)
                elif kind == 'sigmoid': f, d = _sig(x), _dsig(x)
                else: f, d = math.tanh(x), (1.0 / math.cosh(x) ** 2 if abs(x) < 350 else 0.0)
                tie = kind in ('relu', 'leaky') and abs(x) <= 1e-240
                if which == 'value':
                    if yv is None or i >= len(yv) or not _close(yv[i], f):
                        viol.append(('%s: %s(%r): got %r, formula %r' % (r.prog.name, kind, x, yv[i] if yv and i < len(yv) else None, f), r))
                else:
                    got = gv[i] if gv and i < len(gv) else None
                    want = ws[i] * d
                    if tie and got is not None and got == got:
                        lo, hi = sorted([ws[i] * (1.0 if kind == 'relu' else 1.0), ws[i] * (0.0 if kind == 'relu' else m)])
                        if lo - 1e-12 <= got <= hi + 1e-12: continue
                    if got is None or not _close(got, want):
                        msg = '%s: d/dx %s at x=%r times %r: got %r, formula %r' % (r.prog.name, kind, x, ws[i], got, want)
                        if kind == 'sigmoid' and x < -709.78 and got is not None and got != got:
                            known.append(('sigmoid-grad-nan-below-minus-709', msg, r))
                        else:
                            viol.append((msg, r))
        paths = []
        for k, (msg, r) in enumerate(viol[:3]):
            path = os.path.join(runner.VERIF, 'replays', '%s-oracle-%d.case' % (which, k))
            os.makedirs(os.path.dirname(path), exist_ok=True)
            with open(path, 'w') as fh:
                fh.write('# formula oracle (%s): the real code against the real-number formula of the theorem\n# %s\n' % (which, msg))
                fh.write(r.prog.text())
                for l in (r.h or []):
                    fh.write('# code: %s\n' % l[:400])
            paths.append((path, msg[:160]))
        info['oracle_failures'] = [m for m, _ in viol][:10]
        return {'violations': paths, 'info': info, 'known': [(sig, msg) for sig, msg, _ in known]}
    return extra
